"""C17 — configuration layers resolve by fixed precedence and round-trip through TOML.

Correspondence: Model.ConfigModel (normalize / construct / to_toml / load_toml, and the str->int /
str->float / bool lexers) against the real TupimageConfig and TupimageTerminal:
  * every option x every value class x every subset of the four layers (file, TUPIMAGE_<OPTION>,
    **kwargs, config_overrides) through the real constructor in a pty sandbox with a private HOME,
    XDG dirs, config file and a scrubbed environment: accepted/rejected, exception type, how the
    message starts, every option's effective value and provenance string, and the dictionary
    to_toml_string dumps after a real `toml` round trip;
  * TupimageConfig.validate_and_normalize on many more generated values; int()/float()/_parse_bool/
    re.split on generated texts (the CPython behaviour the model assumes).
Spec oracle (independent Python transcription of Spec/ConfigSpec.v, evaluated on the
implementation's answers, never on the model's): precedence + provenance, same text from every
layer, wrong type rejected with an error naming the option, dump/load round trip."""
import decimal
import json
import os
import re
import sys
import typing

import common

GEN_DEPS = ("gen_config",)
ASSUMPTIONS = [
    "TOML text <-> TOML values is the `toml` library's job (file layers are written with toml.dumps and read by the code's toml.loads on every case)",
    "int(str)/float(str) are modelled for ASCII input only: ASCII whitespace, sign, decimal digits with single underscores, '.', exponent; "
    "generators never produce non-ASCII digits/whitespace, inf/nan/infinity, hex/octal prefixes or floats that overflow",
    "background values of type CellFormatting/RowFormatting/bytes are not modelled (TOpaque): they cannot come from a file or the environment",
    "dictionary layers carry a string `provenance` label (as cli.py does) or none",
    "strings handed to toml.dumps avoid control characters, the two-character sequence backslash-x (toml 0.10.2 cannot dump them) and strings made only of double quotes (toml 0.10.2 loads them as the empty string); see known_findings/C17.json",
]
TRUSTED = ["the `toml` package (dump and load of scalars, strings and string arrays)", "platformdirs (state/config directory names)"]

LAYERS = ("file", "env", "kw", "ov")  # lowest priority first
PRIORITY = ("ov", "kw", "env", "file")


# ------------------------------------------------------------------------------ wire encoding
def hx(s):
    b = s.encode("utf-8") if isinstance(s, str) else s
    return b.hex() if b else "-"


def unhx(s):
    return b"" if s == "-" else bytes.fromhex(s)


def float_me(x):
    d = decimal.Decimal(repr(x))
    sign, digits, exp = d.as_tuple()
    m = int("".join(map(str, digits)))
    while m != 0 and m % 10 == 0:
        m //= 10
        exp += 1
    if m == 0:
        exp = 0
    return (-m if sign else m), exp


def enc(v, tup):
    """Python value -> wire tokens (None if the value is outside what the model represents)."""
    if v is None:
        return "N"
    if isinstance(v, bool):
        return "B1" if v else "B0"
    if isinstance(v, int):
        return f"I{v}"
    if isinstance(v, float):
        if v != v or v in (float("inf"), float("-inf")):
            return None
        m, e = float_me(v)
        return f"F{m}:{e}"
    if isinstance(v, str):
        return "S" + hx(v)
    if isinstance(v, (list, tuple)):
        parts = [enc(x, tup) for x in v]
        if any(p is None for p in parts):
            return None
        return ",".join([("L" if isinstance(v, list) else "T") + str(len(v))] + parts)
    if isinstance(v, tup.IDSpace):
        return f"P{v.color_bits}:{1 if v.use_3rd_diacritic else 0}"
    if isinstance(v, tup.IDSubspace):
        return f"U{v.begin}:{v.end}"
    if isinstance(v, tup.TransmissionMedium):
        return "M" + hx(v.value)
    return None


def canon(v, tup=None):
    """Implementation value -> JSON-able canonical form (type-exact)."""
    if v is None:
        return ["none"]
    if isinstance(v, bool):
        return ["bool", v]
    if isinstance(v, int):
        return ["int", str(v)]
    if isinstance(v, float):
        return ["float", repr(v)]
    if isinstance(v, str):
        return ["str", v.encode("utf-8", "surrogatepass").hex()]
    if isinstance(v, list):
        return ["list", [canon(x) for x in v]]
    if isinstance(v, tuple):
        return ["tuple", [canon(x) for x in v]]
    n = type(v).__name__
    if n == "IDSpace":
        return ["space", v.color_bits, v.use_3rd_diacritic]
    if n == "IDSubspace":
        return ["sub", v.begin, v.end]
    if n == "TransmissionMedium":
        return ["medium", v.value.encode().hex()]
    return ["other", repr(v)]


def dec_tokens(toks):
    t = toks.pop(0)
    k, r = t[0], t[1:]
    if k == "I":
        return ["int", str(int(r))]
    if k == "F":
        m, e = r.split(":")
        return ["float", repr(float(f"{m}e{e}"))]
    if k == "B":
        return ["bool", r == "1"]
    if k == "S":
        return ["str", unhx(r).hex()]
    if k == "M":
        return ["medium", unhx(r).hex()]
    if k == "P":
        b, d = r.split(":")
        return ["space", int(b), d == "1"]
    if k == "U":
        b, e = r.split(":")
        return ["sub", int(b), int(e)]
    if k == "N":
        return ["none"]
    if k in "LT":
        return ["list" if k == "L" else "tuple", [dec_tokens(toks) for _ in range(int(r))]]
    raise ValueError(t)


def dec(s):
    return dec_tokens(s.split(","))


def enc_items(items, tup):
    return ";".join(f"{hx(k)}={enc(v, tup)}" for k, v in items) if items else "-"


def parse_model_reply(rep):
    """-> ('ok', {name: (canon, prov)}, [(name, canon)]) or ('err', kind, names, stage, text)"""
    p = rep.split(" ")
    if p[0] == "OK":
        snap = {}
        for it in p[1].split(";"):
            k, rest = it.split("=", 1)
            v, prov = rest.rsplit("@", 1)
            snap[unhx(k).decode()] = (dec(v), unhx(prov).decode())
        dump = []
        if p[2] != "-":
            for it in p[2].split(";"):
                k, v = it.split("=", 1)
                dump.append((unhx(k).decode(), dec(v)))
        return ("ok", snap, dump)
    if p[0] == "ERR" and len(p) == 5:
        return ("err", p[1], [unhx(x).decode() for x in p[2].split(",")], p[3], unhx(p[4]).decode())
    raise RuntimeError("model reply: " + rep[:200])


# ------------------------------------------------------------------------------ value classes
SPACE_NAMES = ["32", "32bit", "24", "24bit", "8d", "8bit_diacritic", "8", "8bit", "256", "16", "16d", "16bit", "16bit_diacritic"]
MEDIUM_NAMES = ["d", "direct", "stream", "f", "file", "t", "temp", "tempfile", "s", "shm"]
SAFE_CHARS = "abcxyzAUTO019 _-./:,=#'[]{}é\u00df\u4e2d\U0010eeee\U0001f600"  # no backslash, no bare double quote: see C17-toml-string-escape


def rand_str(rng):
    n = rng.choice([1, 1, 2, 3, 5, 9, 20])
    s = "".join(rng.choice(SAFE_CHARS) for _ in range(n))
    s = s.replace("\\x", "\\y")  # toml 0.10.2 cannot dump backslash-x (known finding C17-toml-string-escape)
    if s.strip('"') == "":
        s += "q"  # ... and reads a string consisting only of double quotes back as "" (same finding)
    return s


def class_values(rng, klass):
    """One value of the class, as (typed value for code/file, environment text or None, comparable)
    `comparable`: the environment text is the same textual form as the typed value."""
    r = rng.random
    if klass == "int":
        v = rng.choice([1, 2, 3, 5, 7, 8, 16, 100, 255, 256, 1000, 4096, rng.randrange(1, 10**6)])
        return v, str(v), True
    if klass == "zero-one":
        v = rng.choice([0, 1])
        return v, str(v), True
    if klass == "negint":
        v = -rng.randrange(1, 1000)
        return v, str(v), True
    if klass == "bigint":
        v = rng.choice([257, 2**31, 2**53 + 1, 10**15, 2**64 + 3])
        return v, str(v), True
    if klass == "float":
        v = rng.choice([0.5, 1.5, 2.25, 0.001, 12.75, 1e-7, 1e22, 2.5, round(rng.uniform(0.01, 100), rng.randrange(0, 6)), -1.5])
        return v, repr(v), True
    if klass == "intfloat":
        v = float(rng.choice([1, 2, 3, 10, 100]))
        return v, repr(v), True
    if klass == "bool":
        v = r() < 0.5
        return v, "true" if v else "false", True
    if klass == "numstr":
        n = rng.randrange(1, 300)
        s = rng.choice(["{n}", " {n}", "{n} ", "\t{n}\n", "+{n}", "-{n}", "0{n}", "00{n}", "1_0{n}", "{n}_0"]).format(n=n)
        return s, s, True
    if klass == "floatstr":
        s = rng.choice(["1.5", "2.", ".5", "1e2", "1.5E-1", " 3.25 ", "-0.5", "1_0.2_5", "+7.0", "0.0", "1E+3", "12.50", "1.e1", "-.25e-2", "100"])
        return s, s, True
    if klass == "boolstr":
        s = rng.choice(["true", "false", "True", "FALSE", "yes", "no", "on", "off", "1", "0", " true ", "Yes", "OFF", "tRuE"])
        return s, s, True
    if klass == "sizestr":
        s = rng.choice(["8x16", "10x20", " 7 x 9 ", "1x1", "100x1", "+8x+16", "0x5", "5x0", "8x", "x", "8x16x2", "axb", "8X16", "-1x5", "8 16", "1_0x2_0"])
        return s, s, True
    if klass == "spacestr":
        s = rng.choice(SPACE_NAMES + ["32 ", "64", "8D", "bit", "0", "16bit_diacritics"])
        return s, s, True
    if klass == "substr":
        s = rng.choice(["0:256", "1:2", "5:10", " 1 : 5 ", "255:256", "0:2", "+1:+9", "0:1", "5:5", "10:5", "0:257", "a:b", "1:2:3", "-1:5", "1:", ":", "12"])
        return s, s, True
    if klass == "mediumstr":
        s = rng.choice(MEDIUM_NAMES + ["D", "files", "memory", "tmp"])
        return s, s, True
    if klass == "liststr":
        s = rng.choice(["png", "png,jpeg", "png, jpeg  gif", ",png", "png,", " ", ",", "a,,b", "png jpeg", " png"])
        return s, s, True
    if klass == "list":
        v = rng.choice([["png"], ["png", "jpeg"], ["a", "b", "c"], ["gif"], ["jpeg", "png", "webp"]])
        return v, ",".join(v), True
    if klass == "oddlist":
        v = rng.choice([[], [""], ["a b", "c,d"], ["auto"], ["", "x"]])
        return v, ",".join(v), False
    if klass == "badlist":
        v = rng.choice([[1], ["png", 2], [True], [["x"]], [1.5]])
        return v, None, False
    if klass == "auto":
        return "auto", "auto", True
    if klass == "garbage":
        s = rng.choice(["abc", "1.2.3", "--5", "1e", "e5", "_1", "1__0", "1_", "0x10", "tru", "truee", "12abc", "1 2", "+", "-", ".", "1e+", "1.5.", "0b1", "1e5x", "yes!", "None"])
        return s, s, True
    if klass == "emptystr":
        return "", "", True
    if klass == "str":
        s = rand_str(rng) if rng.random() < 0.9 else rng.choice(['a"b', 'say "hi"', '"quoted"', "it's"])
        return s, s, True
    return None


CLASSES = ["int", "zero-one", "negint", "bigint", "float", "intfloat", "bool", "numstr", "floatstr", "boolstr", "sizestr", "spacestr",
           "substr", "mediumstr", "liststr", "list", "oddlist", "badlist", "auto", "garbage", "emptystr", "str", "object", "none"]


def object_value(rng, name, tup):
    """typed object form of the structured options (kwargs/config_overrides only); text = what the dump writes"""
    if name in ("cell_size", "default_cell_size"):
        v = rng.choice([(8, 16), (10, 20), (1, 1), (7, 9), (0, 5), (5, -1), (3, 4, 5), (8,), (True, 2), (2.0, 3), ("8", "16")])
        return v, (f"{v[0]}x{v[1]}" if len(v) >= 2 else None), len(v) == 2
    if name == "id_space":
        v = rng.choice(list(tup.IDSpace.all_values()))
        return v, str(v), True
    if name == "id_subspace":
        b = rng.randrange(0, 255)
        e = rng.randrange(max(b + 1, 2), 257)
        v = tup.IDSubspace(b, e)
        return v, str(v), True
    if name == "upload_method":
        v = rng.choice(list(tup.TransmissionMedium))
        return v, v.value, True
    return None


def toml_able(v):
    """can this typed value be written into a TOML file by toml.dumps and come back as the same value?"""
    if isinstance(v, (bool, int, float, str)):
        return True
    if isinstance(v, list):
        return all(isinstance(x, (bool, int, float, str)) for x in v) and len({type(x) for x in v}) <= 1
    return False


# ------------------------------------------------------------------------------ Spec oracle (Python)
def spec_conforms(v, tp, strict=True):
    """Spec/ConfigSpec.v `conforms`: v is a value of the annotated type; a bool is not an int,
    an int is not a float.  strict=False additionally admits what the same *text* denotes:
    an int where a float is expected, 0/1 where a bool is expected."""
    origin = typing.get_origin(tp)
    args = typing.get_args(tp)
    if origin is typing.Union:
        return any(spec_conforms(v, a, strict) for a in args)
    if origin is tuple:
        return type(v) is tuple and len(v) == len(args) and all(spec_conforms(x, a, True) for x, a in zip(v, args))
    if origin is list:
        return type(v) is list and all(spec_conforms(x, args[0], True) for x in v)
    if origin is typing.Literal:
        return type(v) is str and v in args
    if tp is type(None):
        return v is None
    if tp is int:
        return type(v) is int
    if tp is float:
        return type(v) is float or (not strict and type(v) is int)
    if tp is bool:
        return type(v) is bool or (not strict and type(v) is int and v in (0, 1))
    if tp is str:
        return type(v) is str
    return isinstance(v, tp)


def spec_scalar_option(tp):
    """the option's values are TOML scalars (int / float / bool, possibly with a Literal alternative):
    only then is a bare TOML scalar in a file the same textual form as the environment text.  For
    string-form options (str, lists, ID space / subspace / medium names, WxH sizes) the file form of
    the environment text t is the TOML string "t"."""
    origin = typing.get_origin(tp)
    if origin is typing.Union:
        return all(spec_scalar_option(a) or typing.get_origin(a) is typing.Literal for a in typing.get_args(tp))
    return tp in (int, float, bool)


TOML_INT = re.compile(r"[+-]?(0|[1-9](_?[0-9])*)\Z")
TOML_FLOAT = re.compile(r"[+-]?(0|[1-9](_?[0-9])*)(\.[0-9](_?[0-9])*)?([eE][+-]?[0-9](_?[0-9])*)?\Z")


def spec_toml_scalar(t):
    """strict TOML reading of a bare scalar; None if t is not one"""
    if t == "true":
        return True
    if t == "false":
        return False
    if TOML_INT.match(t):
        return int(t.replace("_", ""))
    if TOML_FLOAT.match(t):
        return float(t.replace("_", ""))
    return None


def names_option(exc_type, msg, name):
    return exc_type in ("ValueError", "KeyError") and name in msg


def same(a, b):
    return a == b


def oracle_norm(ctx, name, tp, raw, res, where):
    """clause 3 on one validate_and_normalize answer.  res = ('ok', canon, strictly_conforms) | ('exc', type, msg)"""
    raw_typed_wrong = not isinstance(raw, str) and raw is not None and not spec_conforms(raw, tp, strict=False)
    if res[0] == "exc":
        if not names_option(res[1], res[2], name):
            ctx.violations.append({
                "signature": {"class": "error-does-not-name-option", "exception": res[1], "raw_type": type(raw).__name__},
                "what": f"{name} = {raw!r} is rejected with {res[1]}: {res[2][:120]!r}, which does not name the option",
                "case": {"kind": "norm", "option": name, "raw": jraw(raw), "where": where}})
    else:
        if raw_typed_wrong:
            ctx.violations.append({
                "signature": {"class": "wrong-type-accepted", "raw_type": type(raw).__name__, "option_type": tname(tp)},
                "what": f"{name} (type {tname(tp)}) accepts the {type(raw).__name__} value {raw!r}",
                "case": {"kind": "norm", "option": name, "raw": jraw(raw), "where": where}})
        elif not res[2]:
            ctx.violations.append({
                "signature": {"class": "stored-value-of-wrong-type", "option_type": tname(tp), "raw_type": type(raw).__name__},
                "what": f"{name} (type {tname(tp)}) stores {res[1]!r} for {raw!r}",
                "case": {"kind": "norm", "option": name, "raw": jraw(raw), "where": where}})


def oracle_same_text(ctx, name, tp, typed, text, r_typed, r_text, where):
    """clause 2: the typed value (file / code) and the same text from the environment"""
    okT, okE = r_typed[0] == "ok", r_text[0] == "ok"
    sig = None
    if okT and not okE:
        sig = {"class": "same-text:typed-accepted-text-rejected", "option_type": tname(tp), "raw_type": type(typed).__name__}
        what = f"{name} = {typed!r} is accepted as a typed value (file/code) but the same text {text!r} from TUPIMAGE_{name.upper()} is rejected"
    elif okT and okE and r_typed[1] != r_text[1]:
        sig = {"class": "same-text:different-results", "option_type": tname(tp), "raw_type": type(typed).__name__}
        what = f"{name}: typed {typed!r} gives {r_typed[1]!r}, the same text {text!r} from the environment gives {r_text[1]!r}"
    elif okE and not okT and spec_scalar_option(tp) and not isinstance(typed, str):
        sig = {"class": "same-text:text-accepted-typed-rejected", "option_type": tname(tp), "raw_type": type(typed).__name__}
        what = f"TUPIMAGE_{name.upper()}={text!r} is accepted but the same text in a file / typed value {typed!r} is rejected"
    if sig:
        ctx.violations.append({"signature": sig, "what": what,
                               "case": {"kind": "sametext", "option": name, "typed": jraw(typed), "text": text, "where": where}})


def tname(tp):
    return getattr(tp, "__name__", None) if isinstance(tp, type) else str(tp).replace("typing.", "").replace("tupimage.graphics_command.", "").replace("tupimage.placeholder.", "")


def jraw(v):
    """JSON form of a raw value for replays"""
    if isinstance(v, tuple):
        return {"tuple": [jraw(x) for x in v]}
    if isinstance(v, list):
        return {"list": [jraw(x) for x in v]}
    if isinstance(v, (bool, int, float, str)) or v is None:
        return v
    n = type(v).__name__
    if n == "IDSpace":
        return {"space": [v.color_bits, v.use_3rd_diacritic]}
    if n == "IDSubspace":
        return {"sub": [v.begin, v.end]}
    if n == "TransmissionMedium":
        return {"medium": v.value}
    return {"repr": repr(v)}


def unjraw(j, tup):
    if isinstance(j, dict):
        if "tuple" in j:
            return tuple(unjraw(x, tup) for x in j["tuple"])
        if "list" in j:
            return [unjraw(x, tup) for x in j["list"]]
        if "space" in j:
            return tup.IDSpace(*j["space"])
        if "sub" in j:
            return tup.IDSubspace(*j["sub"])
        if "medium" in j:
            return tup.TransmissionMedium(j["medium"])
        raise ValueError(j)
    return j


# ------------------------------------------------------------------------------ direct runs (no tty)
def run_V(tup, name, raw):
    C = tup.tupimage_terminal.TupimageConfig
    tp = C.__annotations__.get(name)
    try:
        r = C.validate_and_normalize(name, raw, "P")
        return ("ok", canon(r), spec_conforms(r, tp, True), r)
    except BaseException as e:  # noqa
        return ("exc", type(e).__name__, e.args[0] if e.args and isinstance(e.args[0], str) else str(e))


def platform(tup):
    import platformdirs
    import select
    return platformdirs.user_state_dir("tupimage"), select.PIPE_BUF


def compare_norm(ctx, cov, model, tup, cases):
    """cases: list of (name, raw, klass).  Model vs validate_and_normalize + clause 3 oracle."""
    sd, pb = platform(tup)
    C = tup.tupimage_terminal.TupimageConfig
    reqs, keep = [], []
    for name, raw, klass in cases:
        e = enc(raw, tup)
        if e is None:
            continue
        reqs.append(f"c17.normalize {hx(sd)} {pb} {hx(name)} {e}")
        keep.append((name, raw, klass))
    reps = model.batch(reqs)
    for (name, raw, klass), rep in zip(keep, reps):
        known = name in C.__annotations__
        res = run_V(tup, name, raw)
        case = {"kind": "norm", "option": name, "raw": jraw(raw)}
        cov.add(case, nontrivial=True, klass=f"V/{klass}/{'accepted' if res[0] == 'ok' else 'rejected'}")
        if known:
            oracle_norm(ctx, name, C.__annotations__[name], raw, res, "validate_and_normalize")
        diff = None
        if rep.startswith("OK "):
            m = dec(rep[3:])
            if res[0] != "ok" or res[1] != m:
                diff = "value"
        else:
            p = parse_model_reply(rep)
            if res[0] != "exc":
                diff = "model rejects, code accepts"
            else:
                want_type = "KeyError" if p[1] in ("key", "unknownkeys") else "ValueError"
                if res[1] != want_type or not res[2].startswith(p[4]):
                    diff = "exception type or message start"
                elif p[1] == "value":
                    stage = "conv" if " is invalid: " in res[2] else "type" if ", but got '" in res[2] else "range" if " must be positive" in res[2] else "?"
                    if stage != p[3]:
                        diff = "rejecting stage"
        if diff:
            ctx.corr_breaks.append({"what": f"validate_and_normalize differs from Model.ConfigModel.normalize ({diff})", "case": case,
                                    "impl": [res[0], res[1] if res[0] == "ok" else res[1:3]], "model": rep[:300]})


def check_lexers(ctx, cov, model, tup):
    """the CPython behaviour the model assumes: int(), float(), _parse_bool, re.split on generated ASCII texts"""
    rng = ctx.rng
    alphabet = "0123456789" * 3 + "+-_.eE \t" + "x:a"
    texts = ["", " ", "0", "-0", "+0", "00", "1_000", "1__0", "_1", "1_", " 12 ", "\x1c5", "5\x1f", "1.", ".1", ".", "1e5", "1e", "e5", "1.e5", ".e5",
             "1_0.0_1", "1._5", "1_.5", "1e_5", "1e5_0", "-.5", "+1.5e-3", "1E5", "0e0", "0.000", "100", "1.0e2", "12.500", "- 5", "5 5", "1e+", "٣",
             "1.5e", "0x1", "true", "True", "TRUE", " on", "Off ", "yes", "no", "y", "n", "1", "0", "2", "01", "tru e", "\ttrue\n"]
    for _ in range(ctx.pick(1500, 20000)):
        n = rng.choice([1, 2, 3, 4, 6, 9])
        texts.append("".join(rng.choice(alphabet) for _ in range(n)))
    texts = [t for t in texts if all(ord(c) < 128 for c in t)]
    C = tup.tupimage_terminal.TupimageConfig
    reqs = []
    for t in texts:
        reqs += [f"c17.py_int {hx(t)}", f"c17.py_float {hx(t)}", f"c17.parse_bool {hx(t)}", f"c17.re_split {hx(t)}"]
    reps = model.batch(reqs)
    for i, t in enumerate(texts):
        mi, mf, mb, ms = reps[4 * i:4 * i + 4]
        try:
            pi = "OK " + str(int(t))
        except ValueError:
            pi = "NONE"
        try:
            f = float(t)
            pf = None if (f != f or f in (float("inf"), float("-inf"))) else f
        except ValueError:
            pf = "NONE"
        try:
            pb = "OK " + ("1" if C._parse_bool(t) else "0") if hasattr(C, "_parse_bool") else None
        except ValueError:
            pb = "NONE"
        ps = ",".join(hx(x) for x in re.split(r"[, ]+", t))
        cov.add({"kind": "lexer", "text": t}, nontrivial=pi != "NONE" or pf != "NONE", klass="lexer/" + ("int" if pi != "NONE" else "float" if pf != "NONE" else "neither"))
        bad = []
        if mi != pi:
            bad.append(("int()", pi, mi))
        if pf is not None:
            if pf == "NONE":
                if mf != "NONE":
                    bad.append(("float()", pf, mf))
            else:
                if mf == "NONE" or float("{}e{}".format(*mf.split(" ")[1:])) != pf:
                    bad.append(("float()", repr(pf), mf))
        if pb is not None and mb != pb:
            bad.append(("_parse_bool", pb, mb))
        if ms != ps:
            bad.append(("re.split", ps, ms))
        for what, impl, mod in bad:
            ctx.corr_breaks.append({"what": f"{what} differs from the model on {t!r}", "case": {"kind": "lexer", "text": t}, "impl": impl, "model": mod})


def check_direct(ctx, cov, model, tup):
    rng = ctx.rng
    C = tup.tupimage_terminal.TupimageConfig
    names = list(C.__annotations__)
    cases = []
    per = ctx.pick(6, 60)
    for name in names:
        for klass in CLASSES:
            for _ in range(per):
                if klass == "object":
                    cv = object_value(rng, name, tup)
                elif klass == "none":
                    cv = (None, None, False)
                else:
                    cv = class_values(rng, klass)
                if cv is None:
                    continue
                cases.append((name, cv[0], klass))
                # clause 2, directly on validate_and_normalize
                typed, text, comparable = cv
                if comparable and text is not None and not isinstance(typed, str) and typed is not None:
                    rT, rE = run_V(tup, name, typed), run_V(tup, name, text)
                    oracle_same_text(ctx, name, C.__annotations__[name], typed, text, rT, rE, "validate_and_normalize")
                if isinstance(typed, str):
                    sv = spec_toml_scalar(typed)
                    if sv is not None:  # the text is a bare TOML scalar: what a file would hand over
                        rT, rE = run_V(tup, name, sv), run_V(tup, name, typed)
                        oracle_same_text(ctx, name, C.__annotations__[name], sv, typed, rT, rE, "validate_and_normalize")
    for nm in ["no_such_option", "", "MAX_COLS", "max_cols "]:
        cases.append((nm, 5, "unknown-key"))
    compare_norm(ctx, cov, model, tup, cases)


# ------------------------------------------------------------------------------ constructor runs (pty)
def layer_forms(cv):
    """(typed, text, comparable) -> per-layer raw value or None when the layer cannot carry it"""
    typed, text, _ = cv
    return {"file": typed if toml_able(typed) else (text if isinstance(text, str) and not isinstance(typed, list) else None),
            "env": text if isinstance(text, str) and "\x00" not in text else None,
            "kw": typed, "ov": typed}


def build_cases(ctx, tup):
    rng = ctx.rng
    C = tup.tupimage_terminal.TupimageConfig
    cases = []
    subsets = [[l for i, l in enumerate(LAYERS) if m >> i & 1] for m in range(16)]
    for name in C.__annotations__:
        for klass in CLASSES:
            if klass == "none":
                # None in the dictionary layers is "not set"
                for sub in (["kw"], ["ov"], ["kw", "ov"], ["file", "kw"], ["env", "ov"]):
                    vals = {}
                    for l in sub:
                        vals[l] = None if l in ("kw", "ov") else layer_forms(class_values(rng, "int"))[l]
                    cases.append({"option": name, "klass": klass, "layers": vals})
                # a real value as a keyword and None ("not given") for the same option in config_overrides, and the reverse
                cv = class_values(rng, rng.choice([k for k in CLASSES if k not in ("none", "object")]))
                if cv is not None:
                    f = layer_forms(cv)
                    if f["kw"] is not None:
                        cases.append({"option": name, "klass": klass, "layers": {"kw": f["kw"], "ov": None}})
                        cases.append({"option": name, "klass": klass, "layers": {"kw": None, "ov": f["ov"]}})
                        cases.append({"option": name, "klass": klass, "layers": {"env": f["env"], "kw": f["kw"], "ov": None}} if f["env"] is not None else
                                     {"option": name, "klass": klass, "layers": {"kw": f["kw"], "ov": None}})
                continue
            # one shared value for the four single-layer cases (clause 2), fresh values otherwise
            shared = object_value(rng, name, tup) if klass == "object" else class_values(rng, klass)
            if shared is None:
                continue
            for sub in subsets:
                if ctx.quick() and len(sub) in (2, 3) and rng.random() < 0.5:
                    continue
                vals, ok = {}, True
                for l in sub:
                    cv = shared if len(sub) == 1 else (object_value(rng, name, tup) if klass == "object" else class_values(rng, klass))
                    f = layer_forms(cv)[l]
                    if f is None:
                        ok = False
                        break
                    vals[l] = f
                if not ok:
                    continue
                case = {"option": name, "klass": klass, "layers": vals}
                if len(sub) == 1:
                    case["shared"] = {"typed": shared[0], "text": shared[1], "comparable": shared[2]}
                cases.append(case)
    # several options at once, an unknown key in the file, labelled dictionaries, the three file routes
    names = list(C.__annotations__)
    for _ in range(ctx.pick(150, 1500)):
        k = rng.choice([2, 3, 5])
        opts = rng.sample(names, k)
        multi = {}
        for o in opts:
            klass = rng.choice(CLASSES[:-2])
            cv = class_values(rng, klass)
            forms = layer_forms(cv)
            for l in rng.sample(LAYERS, rng.choice([1, 2, 3])):
                if forms[l] is not None and o not in [k for k, _ in multi.get(l, [])]:
                    multi.setdefault(l, []).append([o, forms[l]])
        case = {"option": None, "klass": "multi", "multi": multi}
        if rng.random() < 0.3:
            multi.setdefault("file", []).append(["no_such_key", 1])
            if rng.random() < 0.5 and "ignore_unknown_attributes" not in [k for k, _ in multi["file"]]:
                multi["file"].insert(rng.randrange(len(multi["file"])), ["ignore_unknown_attributes", rng.choice([True, False, "yes"])])
        cases.append(case)
    for i, c in enumerate(cases):
        c["route"] = rng.choice(["arg", "env", "xdg", "obj"])   # obj: the file layer is loaded by the caller into a TupimageConfig object handed to the constructor
        c["labels"] = {"kw": rng.choice([None, "KW-label", "set via command line"]), "ov": rng.choice([None, "OV-label", "set via command line"])}
        if "multi" not in c:
            c["multi"] = {l: [[c["option"], v]] for l, v in c["layers"].items()}
    return cases


def run_constructor_cases(ctx, cases, tup_unused=None):
    """Runs the cases in a pty child; returns the list of raw results (JSON)."""
    work = ctx.work
    cfgdir = os.path.join(work, "config", "tupimage")
    out = []
    B = 700
    for start in range(0, len(cases), B):
        batch = cases[start:start + B]

        def child(batch=batch):
            common.scrub_process_env()
            os.environ.pop("TUPIMAGE_CONFIG", None)
            os.environ["HOME"] = work
            os.environ["XDG_STATE_HOME"] = os.path.join(work, "state")
            os.environ["XDG_CONFIG_HOME"] = os.path.join(work, "config")
            os.makedirs(cfgdir, exist_ok=True)
            bindir = os.path.join(work, "bin")  # num_tmux_layers != 0 makes the constructor ask `tmux` for names
            os.makedirs(bindir, exist_ok=True)
            with open(os.path.join(bindir, "tmux"), "w") as f:
                f.write("#!/bin/sh\necho 'fake-term||||77||||88_$1'\n")
            os.chmod(os.path.join(bindir, "tmux"), 0o755)
            os.environ["PATH"] = bindir + ":" + os.environ.get("PATH", "")
            if sys.path[0] != common.REPO:
                sys.path.insert(0, common.REPO)
            for m in [m for m in sys.modules if m == "tupimage" or m.startswith("tupimage.")]:
                del sys.modules[m]  # defaults (state dir) are computed at import time: import under the sandbox environment
            import tupimage
            import toml
            import platformdirs
            import select
            C = tupimage.tupimage_terminal.TupimageConfig
            tty = open("/dev/tty", "rb", buffering=0)
            res = []
            for case in batch:
                for k in [k for k in os.environ if k.startswith("TUPIMAGE_")]:
                    del os.environ[k]
                xdg_file = os.path.join(cfgdir, "config.toml")
                if os.path.exists(xdg_file):
                    os.remove(xdg_file)
                multi = case["multi"]
                kwargs = {}
                path = None
                if "file" in multi:
                    text = "".join(toml.dumps({k: v}) for k, v in multi["file"])
                    path = xdg_file if case["route"] == "xdg" else os.path.join(work, "some dir", "c17.toml")
                    os.makedirs(os.path.dirname(path), exist_ok=True)
                    with open(path, "w") as f:
                        f.write(text)
                    if case["route"] == "arg":
                        kwargs["config"] = path
                    elif case["route"] == "env":
                        os.environ["TUPIMAGE_CONFIG"] = path
                for k, v in multi.get("env", []):
                    os.environ["TUPIMAGE_" + k.upper()] = v
                kw = {k: unjraw(v, tupimage) for k, v in multi.get("kw", [])}
                ov = {k: unjraw(v, tupimage) for k, v in multi.get("ov", [])}
                if case["labels"]["kw"] is not None:
                    kw["provenance"] = case["labels"]["kw"]
                if case["labels"]["ov"] is not None:
                    ov["provenance"] = case["labels"]["ov"]
                r = {"path": os.path.abspath(path) if path else None}
                try:
                    if case["route"] == "obj":
                        base = C()
                        if path:
                            base.override_from_toml_file(path)
                        kwargs["config"] = base
                        r["base_pre"] = {n: [canon(getattr(base, n)), base.get_provenance(n)] for n in C.__annotations__}
                    t = tupimage.TupimageTerminal(out_command=common.RecStream(), out_display=common.RecStream(), in_response=tty,
                                                  id_database=os.path.join(work, "hl.db"), config_overrides=ov, **kwargs, **kw)
                    cfg = t._config
                    r["snap"] = {n: [canon(getattr(cfg, n)), cfg.get_provenance(n), spec_conforms(getattr(cfg, n), C.__annotations__[n], True)] for n in C.__annotations__}
                    r["config_file"] = t._config_file
                    if case["route"] == "obj":
                        r["base_post"] = {n: [canon(getattr(base, n)), base.get_provenance(n)] for n in C.__annotations__}
                    # what the top layer's raw value normalises to on its own (clause 1 reference)
                    try:
                        text = cfg.to_toml_string()
                        r["toml"] = text
                        r["toml_prov"] = cfg.to_toml_string(with_provenance=True)
                        loaded = toml.loads(text)
                        r["dump"] = [[k, canon(v)] for k, v in loaded.items()]
                        c2 = C()
                        c2.override_from_toml_string(text)
                        r["reload"] = {n: canon(getattr(c2, n)) for n in C.__annotations__}
                    except BaseException as e:  # noqa
                        r["dump_exc"] = [type(e).__name__, str(e)[:300]]
                    ref = {}
                    for l, items in multi.items():
                        for k, v in items:
                            if k in C.__annotations__:
                                raw = unjraw(v, tupimage) if l in ("kw", "ov") else v
                                if raw is None:
                                    continue
                                try:
                                    ref[l + "/" + k] = canon(C.validate_and_normalize(k, raw, "ref"))
                                except BaseException as e:  # noqa
                                    ref[l + "/" + k] = ["exc", type(e).__name__]
                    r["ref"] = ref
                except BaseException as e:  # noqa
                    r["exc"] = [type(e).__name__, e.args[0] if e.args and isinstance(e.args[0], str) else str(e)]
                res.append(r)
            return {"results": res, "state_dir": platformdirs.user_state_dir("tupimage"), "pipe_buf": select.PIPE_BUF,
                    "defaults": {n: canon(getattr(C(), n)) for n in C.__annotations__}}

        # kwargs/ov values must cross the fork as JSON-able data: convert objects before, rebuild in the child
        r = common.in_pty(child, timeout=600)
        if "ok" not in r:
            raise RuntimeError("constructor batch failed in the pty sandbox: " + json.dumps({k: v for k, v in r.items() if k != "tty"})[:1500])
        out.append(r["ok"])
    return out


def jsonable_cases(cases):
    for c in cases:
        c["multi"] = {l: [[k, (jraw(v) if l in ("kw", "ov") else v)] for k, v in items] for l, items in c["multi"].items()}
        c.pop("layers", None)
        if "shared" in c:
            c["shared"]["typed"] = jraw(c["shared"]["typed"])
    return cases


def top_layer(multi, name, tup):
    for l in PRIORITY:
        vals = [v for k, v in multi.get(l, []) if k == name and not (l in ("kw", "ov") and v is None)]
        if vals:
            return l, vals[-1]
    return None, None


def check_constructor(ctx, cov, model, tup):
    cases = jsonable_cases(build_cases(ctx, tup))
    outs = run_constructor_cases(ctx, cases)
    results = [r for o in outs for r in o["results"]]
    sd, pb, defaults = outs[0]["state_dir"], outs[0]["pipe_buf"], outs[0]["defaults"]
    C = tup.tupimage_terminal.TupimageConfig
    ann = C.__annotations__
    # ---- model requests
    reqs = []
    for case, r in zip(cases, results):
        multi = case["multi"]
        file = "NONE"
        if "file" in multi:
            file = hx(r["path"]) + "|" + enc_items([(k, v) for k, v in multi["file"]], tup)
        env = enc_items([(k, v) for k, v in multi.get("env", [])], tup)
        kw = hx(case["labels"]["kw"] or "set from dict") + "|" + enc_items([(k, unjraw(v, tup)) for k, v in multi.get("kw", [])], tup)
        ov = hx(case["labels"]["ov"] or "set from dict") + "|" + enc_items([(k, unjraw(v, tup)) for k, v in multi.get("ov", [])], tup)
        reqs.append(f"c17.construct {hx(sd)} {pb} {file} {env} {kw} {ov} 0")
    reps = model.batch(reqs)
    groups = {}
    for case, r, rep in zip(cases, results, reps):
        multi = case["multi"]
        present = [l for l in LAYERS if l in multi]
        accepted = "exc" not in r
        brief = {"kind": "layers", "multi": multi, "labels": case["labels"], "route": case["route"]}
        cov.add(brief, nontrivial=bool(present),
                klass=f"ctor/{case['klass']}/{'+'.join(present) or 'none'}/{'accepted' if accepted else 'rejected'}")
        m = parse_model_reply(rep)
        # ---------------- correspondence
        if accepted:
            if m[0] != "ok":
                ctx.corr_breaks.append({"what": "constructor accepts, model rejects", "case": brief, "impl": "accepted", "model": rep[:300]})
            else:
                impl_snap = {n: (tuple_json(v[0]), v[1]) for n, v in r["snap"].items()}
                mod_snap = {n: (tuple_json(v[0]), v[1]) for n, v in m[1].items()}
                if impl_snap != mod_snap:
                    d = {n: [impl_snap.get(n), mod_snap.get(n)] for n in set(impl_snap) | set(mod_snap) if impl_snap.get(n) != mod_snap.get(n)}
                    ctx.corr_breaks.append({"what": "effective values / provenance differ from Model.ConfigModel.construct", "case": brief, "differences(impl,model)": d})
                if "dump" in r:
                    if [(k, tuple_json(v)) for k, v in r["dump"]] != [(k, tuple_json(v)) for k, v in m[2]]:
                        ctx.corr_breaks.append({"what": "to_toml_string (parsed back by toml) differs from Model.ConfigModel.to_toml", "case": brief,
                                                "impl": r["dump"], "model": m[2]})
                else:
                    ctx.corr_breaks.append({"what": "to_toml_string raised", "case": brief, "impl": r.get("dump_exc")})
        else:
            et, msg = r["exc"]
            if m[0] != "err":
                ctx.corr_breaks.append({"what": "constructor rejects, model accepts", "case": brief, "impl": r["exc"], "model": rep[:200]})
            else:
                want = "KeyError" if m[1] in ("key", "unknownkeys") else "ValueError"
                ok = et == want and (msg.startswith(m[4]) if m[1] != "unknownkeys" else (msg.startswith("Unknown config keys: ") and sorted(msg[len("Unknown config keys: "):].split(", ")) == sorted(m[2])))
                if not ok:
                    ctx.corr_breaks.append({"what": "constructor's exception differs from the model's", "case": brief, "impl": r["exc"], "model": rep[:300]})
        # ---------------- Spec oracle on the implementation's answers
        oracle_case(ctx, case, r, brief, ann, defaults, tup)
        oracle_base(ctx, cov, r, brief, ann)
        if case.get("shared") and len(present) == 1:
            groups.setdefault((case["option"], case["klass"]), {})[present[0]] = (case, r)
    # clause 2 through the real layers: the same text in a file, in the environment, in code
    for (name, klass), g in groups.items():
        any_case = next(iter(g.values()))[0]
        sh = any_case["shared"]
        if not sh["comparable"] or sh["text"] is None:
            continue
        typed = unjraw(sh["typed"], tup)

        def outcome(l):
            if l not in g:
                return None
            r = g[l][1]
            return ("exc", r["exc"][0]) if "exc" in r else ("ok", r["snap"][name][0])
        oE = outcome("env")
        for l in ("file", "kw", "ov"):
            oT = outcome(l)
            if oT is None or oE is None:
                continue
            raw_l = dict((k, v) for k, v in g[l][0]["multi"][l]).get(name)
            raw_l = unjraw(raw_l, tup) if l in ("kw", "ov") else raw_l
            oracle_same_text(ctx, name, ann[name], raw_l, sh["text"], oT, oE, f"layer {l} vs environment")
    return len(cases)


def tuple_json(x):
    return json.dumps(x, sort_keys=True)


def oracle_base(ctx, cov, r, brief, ann):
    if "base_post" in r and "snap" in r:
        # the caller's own TupimageConfig object after the construction: whether the constructor works on it or on a copy,
        # each option's (value, provenance) pair is the one it had before or the terminal's — a provenance naming a layer
        # that did not give the object's value is a wrong report
        cov.bump("ctor/config-object-of-the-caller-inspected")
        for n in ann:
            post = (tuple_json(r["base_post"][n][0]), r["base_post"][n][1])
            pre = (tuple_json(r["base_pre"][n][0]), r["base_pre"][n][1])
            term = (tuple_json(r["snap"][n][0]), r["snap"][n][1])
            if post not in (pre, term):
                ctx.violations.append({
                    "signature": {"class": "precedence", "layer": "caller's config object", "value_ok": post[0] in (pre[0], term[0]), "provenance_ok": False},
                    "what": f"{n}: after TupimageTerminal(config=<object>, ...) the caller's object reports value {r['base_post'][n][0]} with provenance {r['base_post'][n][1]!r}; "
                            f"before it was {r['base_pre'][n]}, the terminal's own is {r['snap'][n][:2]}",
                    "case": brief})
                break


def oracle_case(ctx, case, r, brief, ann, defaults, tup):
    multi = case["multi"]
    touched = {k for items in multi.values() for k, v in items}
    if "exc" in r:
        et, msg = r["exc"]
        named = [n for n in touched if n and n in msg]
        if et not in ("ValueError", "KeyError") or not named:
            ctx.violations.append({
                "signature": {"class": "error-does-not-name-option", "exception": et, "where": "constructor"},
                "what": f"construction with {multi} fails with {et}: {msg[:120]!r}, which names none of the options involved",
                "case": brief})
        return
    snap = r["snap"]
    for name in ann:
        val, prov, conforms = snap[name]
        layer, raw = top_layer(multi, name, tup)
        # clause 1: value of the highest-priority layer that sets it, provenance names that layer
        if layer is None:
            exp_val = defaults[name]
            exp_prov = "default"
            if name == "num_tmux_layers":
                exp_val, exp_prov = ["int", "0"], "expanded from 'auto' (default)"
            ok_prov = prov == exp_prov
        else:
            exp_val = r["ref"].get(layer + "/" + name)
            if layer == "file":
                ok_prov = prov.startswith("set from file ") and prov.endswith(r["path"])
            elif layer == "env":
                ok_prov = prov == "set via TUPIMAGE_" + name.upper()
            else:
                ok_prov = prov == (case["labels"][layer] or "set from dict")
            if name == "num_tmux_layers" and exp_val == ["str", "auto".encode().hex()]:
                exp_val = ["int", "0"]
                ok_prov = prov.startswith("expanded from 'auto' (")
        if val != exp_val or not ok_prov:
            ctx.violations.append({
                "signature": {"class": "precedence", "layer": layer or "default", "value_ok": val == exp_val, "provenance_ok": ok_prov},
                "what": f"{name}: effective value {val} / provenance {prov!r}; the highest-priority layer setting it is {layer or 'none'} (expected value {exp_val})",
                "case": brief})
        # clause 3: what is stored is a value of the annotated type
        if not conforms:
            ctx.violations.append({
                "signature": {"class": "stored-value-of-wrong-type", "option_type": tname(ann[name]), "raw_type": type(raw).__name__},
                "what": f"{name} (type {tname(ann[name])}) holds {val} after setting it to {raw!r} in layer {layer}",
                "case": brief})
    # clause 4: dump and load
    if "dump_exc" in r:
        ctx.violations.append({"signature": {"class": "roundtrip", "how": "dump-or-load-raises", "exception": r["dump_exc"][0]},
                               "what": f"dumping/reloading the configuration raises {r['dump_exc']}", "case": brief})
    else:
        bad = {n: [snap[n][0], r["reload"][n]] for n in ann if snap[n][0] != r["reload"][n]}
        if bad:
            ctx.violations.append({"signature": {"class": "roundtrip", "how": "value-changes", "options": sorted(bad)[:3]},
                                   "what": f"dump + load changes {bad}", "case": brief})


# ------------------------------------------------------------------------------ round trip of reachable configurations (no tty)
def check_roundtrip_direct(ctx, cov, model, tup):
    """TupimageConfig built from accepted values of every option; dump, reload, compare; model's dump and load."""
    rng = ctx.rng
    C = tup.tupimage_terminal.TupimageConfig
    names = list(C.__annotations__)
    sd, pb = platform(tup)
    import toml
    n = ctx.pick(300, 3000)
    reqs, keep = [], []
    for _ in range(n):
        cfg = C()
        chosen = {}
        for name in rng.sample(names, rng.choice([1, 2, 4, 8, len(names)])):
            for _try in range(6):
                klass = rng.choice(CLASSES[:-1])
                cv = object_value(rng, name, tup) if klass == "object" else class_values(rng, klass)
                if cv is None:
                    continue
                try:
                    C.validate_and_normalize(name, cv[0], "x")
                except BaseException:  # noqa
                    continue
                chosen[name] = cv[0]
                break
        try:
            cfg.override_from_dict(dict(chosen), provenance="rt")
        except BaseException as e:  # noqa
            ctx.corr_breaks.append({"what": "override_from_dict rejects individually accepted values", "case": {"kind": "rt", "values": {k: jraw(v) for k, v in chosen.items()}}, "impl": repr(e)[:200]})
            continue
        before = {nm: canon(getattr(cfg, nm)) for nm in names}
        case = {"kind": "rt", "values": {k: jraw(v) for k, v in chosen.items()}}
        cov.add(case, nontrivial=bool(chosen), klass=f"roundtrip/{min(len(chosen), 9)}-options")
        try:
            text = cfg.to_toml_string()
            c2 = C()
            c2.override_from_toml_string(text)
            after = {nm: canon(getattr(c2, nm)) for nm in names}
            dump = [(k, canon(v)) for k, v in toml.loads(text).items()]
        except BaseException as e:  # noqa
            ctx.violations.append({"signature": {"class": "roundtrip", "how": "dump-or-load-raises", "exception": type(e).__name__},
                                   "what": f"dumping/reloading a configuration with {chosen!r} raises {type(e).__name__}: {str(e)[:150]}", "case": case})
            continue
        bad = {nm: [before[nm], after[nm]] for nm in names if before[nm] != after[nm]}
        if bad:
            ctx.violations.append({"signature": {"class": "roundtrip", "how": "value-changes", "options": sorted(bad)[:3]},
                                   "what": f"dump + load changes {bad}", "case": case})
        items = enc_items(list(chosen.items()), tup)
        reqs.append(f"c17.construct {hx(sd)} {pb} NONE - {hx('rt')}|{items} {hx('x')}|- 1")
        keep.append((case, before, dump))
    reps = model.batch(reqs)
    reqs2 = []
    for (case, before, dump), rep in zip(keep, reps):
        m = parse_model_reply(rep)
        if m[0] != "ok":
            ctx.corr_breaks.append({"what": "model rejects a configuration the code accepts", "case": case, "model": rep[:200]})
            reqs2.append(None)
            continue
        ms = {k: v[0] for k, v in m[1].items()}
        ms["num_tmux_layers"] = before["num_tmux_layers"] if before["num_tmux_layers"][0] == "str" else ms["num_tmux_layers"]  # no constructor here: 'auto' stays
        if {k: tuple_json(v) for k, v in ms.items()} != {k: tuple_json(v) for k, v in before.items()}:
            ctx.corr_breaks.append({"what": "override_from_dict values differ from the model", "case": case})
        mdump = [(k, v) for k, v in m[2] if k != "num_tmux_layers"]
        idump = [(k, v) for k, v in dump if k != "num_tmux_layers"]
        if [(k, tuple_json(v)) for k, v in mdump] != [(k, tuple_json(v)) for k, v in idump]:
            ctx.corr_breaks.append({"what": "to_toml_string differs from Model.to_toml", "case": case, "impl": idump, "model": mdump})
        reqs2.append(f"c17.load {hx(sd)} {pb} {hx('/f')} " + rep.split(" ")[2])
    reps2 = model.batch([q for q in reqs2 if q])
    it = iter(reps2)
    for (case, before, dump), q in zip(keep, reqs2):
        if not q:
            continue
        rep = next(it)
        m = parse_model_reply(rep)
        if m[0] != "ok":
            ctx.corr_breaks.append({"what": "model cannot load its own dump", "case": case, "model": rep[:200]})
            continue
        ms = {k: tuple_json(v[0]) for k, v in m[1].items() if k != "num_tmux_layers"}
        if ms != {k: tuple_json(v) for k, v in before.items() if k != "num_tmux_layers"}:
            ctx.corr_breaks.append({"what": "model: load (dump c) differs from c", "case": case})


def check_toml_strings(ctx, cov, tup):
    """strings the `toml` package cannot dump or reload (control characters, backslash-x): the round
    trip clause fails for string options holding them — listed in known_findings/C17.json"""
    C = tup.tupimage_terminal.TupimageConfig
    for name, s in [("id_database_dir", "/tmp/a\\x41"), ("placeholder_char", "\x7f"), ("id_database_dir", "/tmp/\x1b[0m"), ("background", "\x00"), ("placeholder_char", '"'), ("id_database_dir", "C:\\Users\\x")]:
        cfg = C()
        cfg.override_from_dict({name: s})
        case = {"kind": "tomlstring", "option": name, "value": s}
        cov.add(case, klass="toml-hostile-string")
        v = tomlstring_violation(tup, name, s)
        if v:
            ctx.violations.append(v)


def tomlstring_violation(tup, name, s):
    C = tup.tupimage_terminal.TupimageConfig
    cfg = C()
    cfg.override_from_dict({name: s})
    case = {"kind": "tomlstring", "option": name, "value": s}
    try:
        c2 = C()
        c2.override_from_toml_string(cfg.to_toml_string())
        if getattr(c2, name) == s:
            return None
        how = "value-changes"
    except BaseException as e:  # noqa
        how = "dump-or-load-raises"
    return {"signature": {"class": "roundtrip-toml-string-escape", "how": how},
            "what": f"{name} = {s!r} does not survive to_toml_string + override_from_toml_string ({how}); the `toml` package mishandles control characters, backslash-x and all-quote strings",
            "case": case}


# ------------------------------------------------------------------------------ entry points
def same_file_twice(ctx, cov):
    """Several TupimageTerminal objects built in ONE process from the same, unmodified configuration file (by path, by
    TUPIMAGE_CONFIG, from the XDG location): what a higher layer gave an earlier terminal (keyword, environment variable that
    is gone by now, assignment on the live object) is no business of a later one — it reports the file's values with the file
    as provenance, and the earlier one keeps its own."""
    work = ctx.work

    def child():
        common.scrub_process_env()
        os.environ.pop("TUPIMAGE_CONFIG", None)
        os.environ["HOME"] = work
        os.environ["XDG_STATE_HOME"] = os.path.join(work, "state")
        os.environ["XDG_CONFIG_HOME"] = os.path.join(work, "config")
        cfgdir = os.path.join(work, "config", "tupimage")
        os.makedirs(cfgdir, exist_ok=True)
        import tupimage
        tty = open("/dev/tty", "rb", buffering=0)
        res = []
        for route in ("arg", "env", "xdg"):
            path = os.path.join(cfgdir, "config.toml") if route == "xdg" else os.path.join(work, f"twice-{route}.toml")
            with open(path, "w") as f:
                f.write("max_cols = 50\nfewer_diacritics = true\n")
            os.environ.pop("TUPIMAGE_CONFIG", None)
            kw = {}
            if route == "arg":
                kw["config"] = path
            elif route == "env":
                os.environ["TUPIMAGE_CONFIG"] = path

            def mk(**more):
                return tupimage.TupimageTerminal(out_command=common.RecStream(), out_display=common.RecStream(), in_response=tty, id_database=os.path.join(work, "twice.db"), **kw, **more)
            os.environ["TUPIMAGE_SCALE"] = "2.5"
            t1 = mk(max_cols=10)
            del os.environ["TUPIMAGE_SCALE"]
            t1.max_rows = 7
            t2 = mk()
            snap2 = {n: [canon(getattr(t2._config, n)), t2._config.get_provenance(n)] for n in ("max_cols", "scale", "max_rows", "fewer_diacritics")}
            t2.max_cols = 77
            snap1 = {n: [canon(getattr(t1._config, n)), t1._config.get_provenance(n)] for n in ("max_cols", "scale", "max_rows")}
            res.append({"route": route, "path": os.path.abspath(path), "second": snap2, "first_after": snap1})
            if route == "xdg":
                os.remove(path)
        return res

    r = common.in_pty(child, timeout=120)
    if "ok" not in r:
        ctx.corr_breaks.append({"what": "same-file-twice scenarios failed in the pty sandbox", "error": {k: v for k, v in r.items() if k != "tty"}})
        return
    for rec in r["ok"]:
        cov.add({"same_file_twice": rec["route"]}, klass="ctor/same-file-twice/" + rec["route"])
        s2, s1 = rec["second"], rec["first_after"]
        problems = []
        if s2["max_cols"][0] != ["int", "50"] or not (s2["max_cols"][1].startswith("set from file ") and s2["max_cols"][1].endswith(rec["path"])):
            problems.append(f"second terminal: max_cols = {s2['max_cols']} (the file says 50)")
        if s2["scale"][1] != "default" or s2["max_rows"][1] != "default":
            problems.append(f"second terminal: scale = {s2['scale']}, max_rows = {s2['max_rows']} (no layer of the second terminal sets them)")
        if s1["max_cols"][0] != ["int", "10"] or s1["max_rows"][0] != ["int", "7"] or s1["scale"][1] != "set via TUPIMAGE_SCALE":
            problems.append(f"first terminal afterwards: {s1} (its own layers said max_cols=10, TUPIMAGE_SCALE=2.5, max_rows assigned 7)")
        if problems:
            ctx.violations.append({"signature": {"class": "precedence", "layer": "another terminal built from the same file", "value_ok": False, "provenance_ok": False},
                                   "what": f"two terminals built in one process from the same configuration file ({rec['route']} route): " + "; ".join(problems),
                                   "case": {"kind": "same-file-twice", "route": rec["route"]}})


def run(ctx, model):
    cov = common.Coverage("case = (option(s), raw value per layer, labels, file route) for constructor runs, (option, raw value) for "
                          "validate_and_normalize, text for lexers; non-trivial = at least one layer sets something / the text parses; distinct by hash")
    if model is None:
        return cov
    common.scrub_process_env()
    os.environ["HOME"] = ctx.work
    os.environ["XDG_STATE_HOME"] = os.path.join(ctx.work, "state")
    os.environ["XDG_CONFIG_HOME"] = os.path.join(ctx.work, "config")
    tup = common.import_impl()
    check_lexers(ctx, cov, model, tup)
    check_direct(ctx, cov, model, tup)
    check_roundtrip_direct(ctx, cov, model, tup)
    check_toml_strings(ctx, cov, tup)
    n = check_constructor(ctx, cov, model, tup)
    cov.bump("constructor-cases", n)
    same_file_twice(ctx, cov)
    # the command-line layer: `tupimage display --dump-config ...` reports, and acts on, the same configuration as the library
    # constructor given the same overrides, file and environment
    import c08_cli
    c08_cli.cli_equivalence(ctx, cov, ctx.pick(24, 80), env_rate=0.8)
    rank_violations(ctx)
    return cov


RANK = ["same-text:typed-accepted-text-rejected", "same-text:text-accepted-typed-rejected", "wrong-type-accepted",
        "error-does-not-name-option", "same-text:different-results", "stored-value-of-wrong-type", "roundtrip", "precedence"]


def rank_violations(ctx):
    """./check writes replays for the first three distinct signatures only: put one of each defect family
    first (plain int option from the environment; TOML int for a float option; bool for an int option),
    and attach the list of all distinct signatures of this run to every violation."""
    def key(v):
        sig = v["signature"]
        c = sig.get("class")
        r = RANK.index(c) if c in RANK else len(RANK)
        plain = 0 if (sig.get("option_type") in ("int", "float") and sig.get("raw_type") in ("int", "bool", "str")) else 1
        return (r, plain)
    ctx.violations.sort(key=key)
    heads, rest, got = [], [], set()
    for v in ctx.violations:  # one representative per class first, in rank order
        c = v["signature"].get("class")
        (rest if c in got else heads).append(v)
        got.add(c)
    ctx.violations[:] = heads + rest
    seen, summary = set(), []
    for v in ctx.violations:
        k = common.case_hash(v["signature"])
        if k not in seen:
            seen.add(k)
            summary.append({"signature": v["signature"], "what": v["what"][:200]})
    for v in ctx.violations:
        v["all_violation_classes_of_this_run"] = summary


def replay(ctx, model, rec):
    case = rec["case"]
    common.scrub_process_env()
    os.environ["HOME"] = ctx.work
    os.environ["XDG_STATE_HOME"] = os.path.join(ctx.work, "state")
    os.environ["XDG_CONFIG_HOME"] = os.path.join(ctx.work, "config")
    tup = common.import_impl()
    C = tup.tupimage_terminal.TupimageConfig
    sub = common.Ctx(ctx.prop, ctx.tier, ctx.seed)
    sub.work = ctx.work
    kind = case["kind"]
    if kind == "norm":
        name, raw = case["option"], unjraw(case["raw"], tup)
        res = run_V(tup, name, raw)
        oracle_norm(sub, name, C.__annotations__[name], raw, res, "replay")
        return {"violates": bool(sub.violations), "observed": [res[0], res[1] if res[0] == "ok" else list(res[1:3])], "violations": [v["what"] for v in sub.violations]}
    if kind == "sametext":
        name, typed, text = case["option"], unjraw(case["typed"], tup), case["text"]
        rT, rE = run_V(tup, name, typed), run_V(tup, name, text)
        oracle_same_text(sub, name, C.__annotations__[name], typed, text, rT, rE, "replay")
        return {"violates": bool(sub.violations), "typed": list(rT[:2]), "text": list(rE[:2]), "violations": [v["what"] for v in sub.violations]}
    if kind == "tomlstring":
        v = tomlstring_violation(tup, case["option"], case["value"])
        return {"violates": v is not None, "violations": [v["what"]] if v else []}
    if kind == "same-file-twice":
        same_file_twice(sub, common.Coverage("replay"))
        return {"violates": bool(sub.violations), "violations": [v["what"] for v in sub.violations][:3]}
    if kind == "layers":
        c = {"option": None, "klass": "replay", "multi": case["multi"], "labels": case["labels"], "route": case["route"]}
        out = run_constructor_cases(sub, [c])
        r = out[0]["results"][0]
        oracle_case(sub, c, r, case, C.__annotations__, out[0]["defaults"], tup)
        oracle_base(sub, common.Coverage("replay"), r, case, C.__annotations__)
        return {"violates": bool(sub.violations), "observed": r.get("exc") or {k: v[:2] for k, v in r["snap"].items()}, "violations": [v["what"] for v in sub.violations]}
    if kind == "rt":
        cfg = C()
        chosen = {k: unjraw(v, tup) for k, v in case["values"].items()}
        cfg.override_from_dict(chosen)
        try:
            c2 = C()
            c2.override_from_toml_string(cfg.to_toml_string())
            bad = [n for n in C.__annotations__ if canon(getattr(cfg, n)) != canon(getattr(c2, n))]
            return {"violates": bool(bad), "changed": bad}
        except BaseException as e:  # noqa
            return {"violates": True, "exception": repr(e)[:200]}
    return {"violates": False, "note": "unknown case kind"}
