"""C06 — commands serialise to well-formed escapes that decode to the same fields.
Correspondence: Model.GraphicsCommand (header_bytes, content_bytes, to_bytes) vs the classes of
graphics_command.py, byte for byte, over the presence lattice of every command type.
Search oracle: Spec.KittyProtoSpec.conforms (independent protocol parser + expected field table)
applied to the implementation's bytes, on every case."""
import copy
import itertools
import os

import cmdcodec
import common
from common import hexs, unhex

GEN_DEPS = ("gen_commands", "gen_tmux")
ASSUMPTIONS = [
    "numeric fields are non-negative ints; enum fields hold members of their enum; payloads are bytes (or seekable streams = their contents)",
    "coq/Spec/KittyProtoSpec.v is the reading of the kitty graphics protocol's escape format and key letters",
    "base64.b64encode is RFC 4648 (compared with Lib/Base64 on every payload)",
]
TRUSTED = ["ocaml/drv_cmd.ml + harness/cmdcodec.py (encoding of command objects on the model's line protocol)"]


def lattice(fields, quick, rng, random_n):
    n = len(fields)
    seen = set()
    if quick:
        ks = [k for k in (0, 1, 2, n - 1, n) if 0 <= k <= n]
        for k in sorted(set(ks)):
            for s in itertools.combinations(range(n), k):
                seen.add(s)
        for _ in range(random_n):
            seen.add(tuple(i for i in range(n) if rng.random() < 0.5))
    else:
        if n <= 13:
            for k in range(n + 1):
                for s in itertools.combinations(range(n), k):
                    seen.add(s)
        else:
            for k in (0, 1, 2, 3, n - 2, n - 1, n):
                for s in itertools.combinations(range(n), k):
                    seen.add(s)
            for _ in range(random_n):
                seen.add(tuple(i for i in range(n) if rng.random() < 0.5))
    return [[fields[i] for i in s] for s in sorted(seen)]


def gen_cases(ctx, tup):
    gc = tup.graphics_command
    g = cmdcodec.Gen(ctx.rng, gc)
    q = ctx.quick()
    # transmit: own fields x placement presence
    tp = [("T:" + f) for f in g.FIELDS_T] + [("P:" + f) for f in g.FIELDS_P]
    for sub in lattice(tp, q, ctx.rng, ctx.pick(6000, 120000)):
        own = [f[2:] for f in sub if f.startswith("T:")]
        pl = [f[2:] for f in sub if f.startswith("P:")]
        for with_pl in ((True,) if pl else (False, True)):
            yield "transmit", g.transmit(own, pl if with_pl else None, omit_action=ctx.rng.random() < 0.08)
    for sub in lattice(g.FIELDS_M, q, ctx.rng, 50):
        for _ in range(ctx.pick(3, 40)):
            yield "more", g.more(sub)
    for sub in lattice(g.FIELDS_U, q, ctx.rng, ctx.pick(600, 4000)):
        yield "put", g.put(sub)
    for sub in lattice(g.FIELDS_D, False, ctx.rng, 0):
        for _ in range(ctx.pick(4, 60)):
            yield "delete", g.delete(sub)
    # every enum member, every delete letter in both cases
    for w in gc.WhatToDelete:
        for dd in (None, False, True):
            yield "delete", gc.DeleteCommand(what=w, delete_data=dd, image_id=g.num())
    for m in gc.TransmissionMedium:
        for f in gc.Format:
            for qn in gc.Quietness:
                yield "transmit", gc.TransmitCommand(medium=m, format=f, quiet=qn, data=g.payload())
    for _ in range(ctx.pick(8000, 100000)):
        c = g.random_command()
        yield type(c).__name__.replace("Command", "").lower(), c
    # file-like payloads (io.BytesIO, open files) whose stream position is anywhere: at 0, in the middle, at the end
    # (a freshly written buffer, a file whose header was peeked at, a stream that was already read once): the payload
    # of the escape is the WHOLE content whatever the position
    import io
    for i in range(ctx.pick(600, 6000)):
        content = g.payload(ctx.rng.choice(["binary", "binary", "small", "filename", "empty"]))
        if i % 7 == 6:
            path = os.path.join(ctx.work, f"c06-payload-{i % 5}.bin")
            with open(path, "wb") as f:
                f.write(content)
            stream = open(path, "rb")
        else:
            stream = io.BytesIO(content)
        stream.seek(ctx.rng.choice([0, len(content), len(content) // 2, ctx.rng.randrange(len(content) + 1)]))
        own = [f for f in g.FIELDS_T if ctx.rng.random() < 0.3]
        yield "transmit", g.transmit(own, None, data=stream)


def exhaustive_transmit(ctx, model, tup, cov):
    """thorough tier: EVERY subset of the 12 own + 9 placement optional fields of TransmitCommand (2^21 presence
    patterns, one value each), in shards."""
    gc = tup.graphics_command
    g = cmdcodec.Gen(ctx.rng, gc)
    tmpl = gc.GraphicsCommand.DEFAULT_TEMPLATE
    fields = [("T", f) for f in g.FIELDS_T] + [("P", f) for f in g.FIELDS_P]
    n = len(fields)
    shard = []
    total = 0

    def flush():
        nonlocal shard, total
        if not shard:
            return
        reqs = []
        for toks, esc in shard:
            ts = " ".join(toks)
            reqs.append("cmd.to_bytes 0 " + ts)
            reqs.append(f"cmd.conforms {hexs(esc)} " + ts)
        reps = model.batch(reqs)
        for i, (toks, esc) in enumerate(shard):
            if unhex(reps[2 * i]) != esc:
                ctx.corr_breaks.append({"what": "serialised bytes differ from Model.GraphicsCommand (exhaustive lattice)", "case": toks, "impl": hexs(esc), "model": reps[2 * i]})
            if reps[2 * i + 1] != "1":
                ctx.violations.append({"signature": {"class": "escape-does-not-decode-to-fields", "command": "transmit"},
                                       "what": "the emitted escape does not parse by the protocol's format to exactly the fields that were set", "case": {"tokens": toks, "escape": hexs(esc)}})
        total += len(shard)
        shard = []

    for mask in range(1 << n):
        own = [f for i, (k, f) in enumerate(fields) if k == "T" and mask >> i & 1]
        pl = [f for i, (k, f) in enumerate(fields) if k == "P" and mask >> i & 1]
        c = g.transmit(own, pl if pl else None, data=b"")
        shard.append((cmdcodec.tokens(gc, c), c.to_bytes(tmpl)))
        if len(shard) >= 100000:
            flush()
            if len(ctx.violations) + len(ctx.corr_breaks) > 20:
                break
    flush()
    cov.bump("transmit/exhaustive-presence-lattice-2^21", total)
    cov.evaluations += total


def run(ctx, model):
    cov = common.Coverage("case = (command type, set of present fields, values, payload); non-trivial = at least one optional field set or a non-empty payload; distinct by hash of the token encoding")
    if model is None:
        return cov
    common.scrub_process_env()
    tup = common.import_impl()
    gc = tup.graphics_command
    tmpl = gc.GraphicsCommand.DEFAULT_TEMPLATE
    cases = []
    for kind, c in gen_cases(ctx, tup):
        toks = cmdcodec.tokens(gc, c)
        cases.append((kind, toks, c.header_to_bytes(), c.content_to_bytes(), c.to_bytes(tmpl)))
    reqs = []
    for kind, toks, h, content, esc in cases:
        ts = " ".join(toks)
        reqs.append("cmd.header " + ts)
        reqs.append("cmd.to_bytes 0 " + ts)
        reqs.append(f"cmd.conforms {hexs(esc)} " + ts)
    reps = model.batch(reqs)
    for i, (kind, toks, h, content, esc) in enumerate(cases):
        mh, mb, ok = reps[3 * i], reps[3 * i + 1], reps[3 * i + 2]
        npresent = sum(1 for t in toks[1:] if t not in ("_", "-", "P")) - (1 if kind == "transmit" else 0)
        cov.add(toks, nontrivial=npresent > 0, klass=f"{kind}/present={min(npresent, 21)}")
        if unhex(mh) != h or unhex(mb) != esc or esc != tmpl.replace(b"%b", content):
            ctx.corr_breaks.append({"what": "serialised bytes differ from Model.GraphicsCommand", "case": toks, "impl": hexs(esc), "model": mb, "impl_header": hexs(h), "model_header": mh})
        if ok != "1":
            ctx.violations.append({
                "signature": {"class": "escape-does-not-decode-to-fields", "command": kind},
                "what": "the emitted escape does not parse by the protocol's format to exactly the fields that were set (or keys repeat / payload differs)",
                "case": {"tokens": toks, "escape": hexs(esc)},
            })
    builder_helpers(ctx, model, tup, cov)
    via_send_command(ctx, model, tup, cov)
    highlevel_payloads(ctx, model, cov)
    if not ctx.quick():
        exhaustive_transmit(ctx, model, tup, cov)
    return cov


def builder_helpers(ctx, model, tup, cov):
    """Commands assembled through the builder helpers (set_filename, set_data, set_data_from_file, set_placement) —
    the way TupimageTerminal and scripts build them: what the terminal decodes must be what the caller handed to the helper
    (the file name AS GIVEN, the bytes as given, the placement fields as given)."""
    gc = tup.graphics_command
    tmpl = gc.GraphicsCommand.DEFAULT_TEMPLATE
    rng = ctx.rng
    names = ["/tmp/tty-graphics-protocol-abc.png", "images/cat.png", "cat.png", "./a/../b.png", "/abs//double/slash.png", "/abs/dir/../up.png",
             "psm_12ab34cd", "__nonexistent__", "~/pic.png", "/home/u/картинка 1.png", "a;b,c=d.png", " leading space.png", "trailing/", ""]
    want = []
    for name in names:
        for medium in (gc.TransmissionMedium.FILE, gc.TransmissionMedium.TEMP_FILE, gc.TransmissionMedium.SHARED_MEMORY):
            c = gc.TransmitCommand(image_id=rng.randrange(1, 2**32), medium=medium).set_filename(name)
            want.append((f"set_filename({name!r}) t={medium.value}", name.encode(), c.to_bytes(tmpl), c))
    for _ in range(ctx.pick(40, 400)):
        data = rng.randbytes(rng.choice([0, 1, 2, 3, 7, 100]))
        c = gc.TransmitCommand(image_id=rng.randrange(1, 2**32)).set_data(data)
        want.append(("set_data(bytes)", data, c.to_bytes(tmpl), c))
        path = os.path.join(ctx.work, "c06-helper.bin")
        with open(path, "wb") as f:
            f.write(data)
        c = gc.TransmitCommand(image_id=7).set_data_from_file(path)
        want.append(("set_data_from_file", data, c.to_bytes(tmpl), c))
        c.data.close()
    reps = model.batch([f"cmd.spec_parse {hexs(esc)}" for _, _, esc, _ in want])
    for (what, payload, esc, c), rep in zip(want, reps):
        cov.add({"helper": what, "payload": hexs(payload)}, klass="helper/" + what.split("(")[0])
        got = None
        if rep != "NONE" and ";" in rep:
            p = rep.split(";")[1]
            got = b"" if p in ("NOPAYLOAD", "-") else bytes.fromhex(p)
        if got != payload:
            ctx.violations.append({"signature": {"class": "payload-differs-from-what-the-helper-was-given", "helper": what.split("(")[0]},
                                   "what": f"{what}: the terminal decodes the payload {got!r}, the caller gave {payload!r}", "case": {"tokens": ["helper", what], "escape": hexs(esc)}})
    # set_placement(**kwargs) == placement=PlacementData(**kwargs)
    g = cmdcodec.Gen(ctx.rng, gc)
    for _ in range(ctx.pick(60, 600)):
        fields = [f for f in g.FIELDS_P if rng.random() < 0.4]
        kw = {f: g.value(f) for f in fields}
        a = gc.TransmitCommand(image_id=5).set_placement(**kw).to_bytes(tmpl)
        b = gc.TransmitCommand(image_id=5, placement=gc.PlacementData(**kw)).to_bytes(tmpl)
        cov.add({"helper": "set_placement", "fields": fields}, klass="helper/set_placement")
        if a != b:
            ctx.violations.append({"signature": {"class": "payload-differs-from-what-the-helper-was-given", "helper": "set_placement"},
                                   "what": f"set_placement({kw}) serialises to {a!r}, the same fields given as placement= to {b!r}", "case": {"tokens": ["helper", "set_placement"], "escape": hexs(a)}})


def via_send_command(ctx, model, tup, cov):
    """The bytes that reach the command stream through GraphicsTerminal.send_command — the only way the library and the
    CLI emit commands.  The terminal may rewrite a command only when asked to (force_placeholders / force_direct_transmission,
    the per-call argument deciding when it is given, the terminal's attribute otherwise); what is written must decode to
    exactly the fields of the (possibly rewritten) command: with both switches off, the fields the caller set."""
    import io
    import re
    gc = tup.graphics_command
    GT = tup.graphics_terminal.GraphicsTerminal
    g = cmdcodec.Gen(ctx.rng, gc)
    rng = ctx.rng
    files = []
    for i in range(3):
        path = os.path.join(ctx.work, f"c06-file-{i}.bin")
        content = rng.randbytes([0, 5, 300][i])
        with open(path, "wb") as f:
            f.write(content)
        files.append((path, content))
    checks = []
    corr = []
    chunked = []
    for n in range(ctx.pick(1500, 15000)):
        c = g.random_command()
        k = n % 4
        if k == 0:
            c = g.put([f for f in g.FIELDS_U if rng.random() < 0.5])
        elif k == 1:
            own = [f for f in g.FIELDS_T if rng.random() < 0.3 and f not in ("medium", "more")]
            path, content = rng.choice(files)
            c = g.transmit(own, [f for f in g.FIELDS_P if rng.random() < 0.3] if rng.random() < 0.5 else None, data=path.encode())
            c.medium = rng.choice([gc.TransmissionMedium.FILE, gc.TransmissionMedium.TEMP_FILE, gc.TransmissionMedium.SHARED_MEMORY])
        limit = 10**6
        if k == 2 and n % 8 == 2:
            # an inline transmission cut into several escapes by the terminal's size limit, with every value of `more`
            own = [f for f in g.FIELDS_T if rng.random() < 0.3 and f not in ("medium", "more")]
            c = g.transmit(own, [f for f in g.FIELDS_P if rng.random() < 0.3] if rng.random() < 0.3 else None, data=rng.randbytes(rng.choice([150, 400, 900])))
            c.medium = rng.choice([gc.TransmissionMedium.DIRECT, None])
            c.more = rng.choice([None, False, True, True])
            limit = rng.choice([160, 256])
        fp_term, fd_term = rng.random() < 0.5, rng.random() < 0.5
        fp_call, fd_call = rng.choice([None, False, True]), rng.choice([None, False, True])
        eff_fp = fp_term if fp_call is None else fp_call
        eff_fd = fd_term if fd_call is None else fd_call
        exp = copy.deepcopy(c)     # (send_command itself clones shallowly)
        pid_random = False
        if eff_fp:
            if isinstance(exp, gc.TransmitCommand) and exp.placement is not None and not exp.placement.virtual:
                exp.placement.virtual = True
                pid_random = exp.placement.placement_id is None
            if isinstance(exp, gc.PutCommand) and not exp.virtual:
                exp.virtual = True
                pid_random = exp.placement_id is None
        if eff_fd and isinstance(exp, gc.TransmitCommand) and exp.medium in (gc.TransmissionMedium.FILE, gc.TransmissionMedium.TEMP_FILE):
            name = exp.get_raw_payload()
            if name:
                byname = dict((p.encode(), b) for p, b in files)
                if name not in byname:
                    exp = None  # a random file name that does not exist: the rewrite raises, nothing is written
                else:
                    exp = exp.clone_with(medium=gc.TransmissionMedium.DIRECT, data=byname[name])
        if exp is not None and isinstance(exp, gc.TransmitCommand) and exp.medium in (None, gc.TransmissionMedium.DIRECT):
            exp.more = bool(exp.more)   # an inline transmission goes through the chunker, which states m explicitly on the (only) chunk
        out = common.RecStream()
        term = GT(out_command=out, out_display=common.RecStream(), in_response=io.BytesIO(), in_userinput=io.BytesIO(), num_tmux_layers=0,
                  force_placeholders=fp_term, force_direct_transmission=fd_term, max_command_size=limit)
        raised = None
        orig_tokens = cmdcodec.tokens(gc, c)
        try:
            term.send_command(c, force_placeholders=fp_call, force_direct_transmission=fd_call)
        except Exception as e:  # printing the placeholder afterwards may fail on this stream-only terminal; the command was written before
            raised = type(e).__name__
            cov.bump("via-send_command/raised-" + raised)
        # correspondence with Model.SendCommand.send_command: the drawn placement id is read off the bytes, the file system
        # is the one file the payload names (if it is one of ours)
        mpid = re.search(rb"[G,]p=(\d+)", out.writes[0].split(b";")[0]) if out.writes else None
        fname, fcontent = "-", "NOFILE"
        if isinstance(c, gc.TransmitCommand) and c.medium in (gc.TransmissionMedium.FILE, gc.TransmissionMedium.TEMP_FILE):
            nm = c.get_raw_payload()
            if nm:
                fname = hexs(nm)
                known = dict((p.encode(), b) for p, b in files)
                fcontent = (hexs(known[nm]) or "-") if nm in known else "NOFILE"
        corr.append((f"cmd.send_command {int(fp_term)} {int(fd_term)} {'_' if fp_call is None else int(fp_call)} {'_' if fd_call is None else int(fd_call)} "
                     f"{int(mpid.group(1)) if mpid else 0} {fname} {fcontent} 0 {limit} " + " ".join(orig_tokens), list(out.writes), raised,
                     (fp_term, fd_term, fp_call, fd_call), orig_tokens))
        if exp is not None and len(out.writes) > 1 and isinstance(exp, gc.TransmitCommand) and raised is None:
            chunked.append((exp, list(out.writes), (fp_term, fd_term, fp_call, fd_call), orig_tokens))
        if exp is None or len(out.writes) != 1:
            cov.bump("via-send_command/not-one-write")
            continue
        esc = out.writes[0]
        if pid_random:
            m = re.search(rb"[G,]p=(\d+)", esc.split(b";")[0])
            if not m or not 1 <= int(m.group(1)) < 2**24:
                ctx.violations.append({"signature": {"class": "escape-does-not-decode-to-fields", "command": "send_command"},
                                       "what": "forced placeholder placement without a placement id in [1, 2^24)", "case": {"tokens": ["via", "send_command"], "escape": hexs(esc)}})
                continue
            if isinstance(exp, gc.PutCommand):
                exp.placement_id = int(m.group(1))
            else:
                exp.placement.placement_id = int(m.group(1))
        checks.append((cmdcodec.tokens(gc, exp), esc, (fp_term, fd_term, fp_call, fd_call), cmdcodec.tokens(gc, c)))
    nbad = 0
    for (req, writes, raised, flags, orig), rep in zip(corr, model.batch([r for r, _, _, _, _ in corr])):
        cov.bump("via-send_command/model-" + ("openfailed" if rep == "OPENFAILED" else "rejected" if rep == "ERROR" else "written"))
        if rep in ("OPENFAILED", "ERROR"):
            ok = raised is not None and not writes
        else:
            mw = rep.split(";", 1)[1]
            ok = [unhex(x) for x in mw.split(",")] == writes if mw != "EMPTY" else writes == []
        if not ok and nbad < 5:
            nbad += 1
            ctx.corr_breaks.append({"what": "GraphicsTerminal.send_command differs from Model.SendCommand.send_command", "flags(term_ph,term_direct,call_ph,call_direct)": list(flags),
                                    "caller_tokens": orig, "impl": {"writes": [hexs(w)[:200] for w in writes[:3]], "raised": raised}, "model": rep[:400]})
    # transmissions cut into several escapes: a terminal reads them as ONE command — the first escape carries the fields,
    # the payloads concatenate to the data, and the transmission ends (m=0 or no m) exactly at the last escape unless the
    # caller set more=True, in which case no escape may end it
    flat = [w for _, ws, _, _ in chunked for w in ws]
    parsed = iter(model.batch([f"cmd.spec_parse {hexs(w)}" for w in flat])) if flat else iter(())
    for exp, ws, flags, orig in chunked:
        cov.bump("via-send_command/chunked")
        ps = [next(parsed) for _ in ws]
        problem = None
        payload = b""
        for i, rep in enumerate(ps):
            if rep == "NONE" or ";" not in rep:
                problem = f"escape {i} does not parse"
                break
            kvs, pl = rep.split(";", 1)
            kv = dict(x.split(":", 1) for x in kvs.split(",")) if kvs != "_" else {}
            payload += b"" if pl in ("NOPAYLOAD", "-") else bytes.fromhex(pl)
            m = bytes.fromhex(kv["m"]).decode() if "m" in kv else "0"
            last = i == len(ps) - 1
            want = "1" if (not last or exp.more is True) else "0"
            if m != want:
                problem = f"escape {i} of {len(ps)} has m={m}; the caller's more={exp.more!r}, so it must be m={want}"
                break
        if problem is None and payload != exp.get_raw_payload():
            problem = "the payloads of the escapes do not concatenate to the data"
        if problem:
            ctx.violations.append({"signature": {"class": "escape-does-not-decode-to-fields", "command": "send_command/chunked"},
                                   "what": f"send_command cut an inline transmission into {len(ws)} escapes: {problem}",
                                   "case": {"tokens": ["via", "send_command"], "escape": hexs(ws[-1]), "flags": list(flags), "caller_tokens": orig}})
            break
    reps = model.batch([f"cmd.conforms {hexs(esc)} " + " ".join(toks) for toks, esc, _, _ in checks])
    for (toks, esc, flags, orig), ok in zip(checks, reps):
        fp_term, fd_term, fp_call, fd_call = flags
        cov.add({"via": "send_command", "flags": flags, "tokens": orig}, klass=f"via-send_command/term={int(fp_term)}{int(fd_term)}/call={fp_call},{fd_call}".replace("None", "-").replace("True", "1").replace("False", "0"))
        if ok != "1":
            ctx.violations.append({
                "signature": {"class": "escape-does-not-decode-to-fields", "command": "send_command"},
                "what": f"send_command on a terminal with force_placeholders={fp_term}, force_direct_transmission={fd_term}, called with force_placeholders={fp_call}, "
                        f"force_direct_transmission={fd_call}: the escape written does not decode to the fields of the command "
                        f"({'as set by the caller' if toks == orig else 'after the rewrite that was asked for'})",
                "case": {"tokens": toks, "escape": hexs(esc), "flags": list(flags), "caller_tokens": orig},
            })
            if sum(1 for v in ctx.violations if v["signature"].get("command") == "send_command") > 5:
                break


def highlevel_payloads(ctx, model, cov):
    """What TupimageTerminal.upload puts in the payload of an inline transmission when it encodes the image itself
    (in-memory images, several in a row on ONE terminal object, larger before smaller and the reverse): the decoded payload
    of every transmission is exactly the PNG encoding of THAT image — nothing left over from an earlier one."""
    import io
    work = ctx.work
    rng = ctx.rng
    orders = [[0, 2], [2, 0, 2], [1, 2, 1, 0], [0, 1, 2, 2, 0]] + [[rng.randrange(3) for _ in range(rng.randrange(2, 6))] for _ in range(ctx.pick(6, 40))]

    def child():
        common.scrub_process_env()
        os.environ["HOME"] = work
        os.environ["XDG_STATE_HOME"] = os.path.join(work, "state")
        os.environ["XDG_CONFIG_HOME"] = os.path.join(work, "config")
        import random as _rnd
        import tupimage
        from PIL import Image
        noise = _rnd.Random(3)
        imgs, pngs = [], []
        for side in (48, 20, 3):                 # PNG encodings of very different lengths
            im = Image.new("RGB", (side, side))
            im.putdata([(noise.randrange(256), noise.randrange(256), noise.randrange(256)) for _ in range(side * side)])
            b = io.BytesIO()
            im.save(b, format="PNG")
            imgs.append(im)
            pngs.append(b.getvalue().hex())
        tty_in = open("/dev/tty", "rb", buffering=0)
        res = []
        for oi, order in enumerate(orders):
            db = os.path.join(work, f"c06-hl-{os.getpid()}-{oi}.db")
            out = common.RecStream()
            t = tupimage.TupimageTerminal(out_command=out, out_display=common.RecStream(), in_response=tty_in, id_database=db, config="DEFAULT", upload_method="direct",
                                          redetect_terminal=False, num_tmux_layers=0, id_space="8bit")
            sends = []
            for ii in order:
                n0 = len(out.writes)
                t.upload(imgs[ii], force_upload=True)
                sends.append([ii, [bytes(w).hex() for w in out.writes[n0:]]])
            res.append(sends)
            os.remove(db)
        return {"pngs": pngs, "runs": res}

    r = common.in_pty(child, timeout=300)
    if "ok" not in r:
        ctx.corr_breaks.append({"what": "high-level payload runs failed in the pty sandbox", "error": {k: v for k, v in r.items() if k != "tty"}})
        return
    pngs = [bytes.fromhex(x) for x in r["ok"]["pngs"]]
    flat = [(oi, si, ii, w) for oi, sends in enumerate(r["ok"]["runs"]) for si, (ii, ws) in enumerate(sends) for w in ws]
    parsed = model.batch([f"cmd.spec_parse {w}" for _, _, _, w in flat]) if flat else []
    got = {}
    for (oi, si, ii, w), rep in zip(flat, parsed):
        pl = b""
        if rep != "NONE" and ";" in rep:
            x = rep.split(";", 1)[1]
            pl = b"" if x in ("NOPAYLOAD", "-") else bytes.fromhex(x)
        got.setdefault((oi, si, ii), bytearray()).extend(pl)
    for (oi, si, ii), payload in got.items():
        cov.add({"highlevel": "upload of an in-memory image", "order": orders[oi], "step": si}, klass="highlevel/in-memory-payload")
        if bytes(payload) != pngs[ii]:
            ctx.violations.append({"signature": {"class": "payload-differs-from-what-the-helper-was-given", "helper": "TupimageTerminal.upload"},
                                   "what": f"one terminal object uploading in-memory images in the order {orders[oi]} (inline): the payload of transmission {si} has {len(payload)} bytes, "
                                           f"the PNG encoding of image {ii} has {len(pngs[ii])}" + (" and is a prefix of it" if bytes(payload).startswith(pngs[ii]) else ""),
                                   "case": {"tokens": ["helper", "highlevel-upload"], "escape": ""}})
            break


def replay(ctx, model, rec):
    case = rec["case"]
    if case["tokens"][:2] == ["helper", "highlevel-upload"]:
        n0 = len(ctx.violations)
        highlevel_payloads(ctx, model, common.Coverage("replay"))
        mine = ctx.violations[n0:]
        del ctx.violations[n0:]
        return {"violates": bool(mine), "violations": [v["what"] for v in mine][:3]}
    if case["tokens"][:1] == ["helper"]:
        sub = common.Ctx(ctx.prop, ctx.tier, ctx.seed)
        sub.work = ctx.work
        builder_helpers(sub, model, common.import_impl(), common.Coverage("replay"))
        return {"violates": bool(sub.violations), "violations": [v["what"] for v in sub.violations][:3]}
    ok = model.one(f"cmd.conforms {case['escape']} " + " ".join(case["tokens"]))
    return {"violates": ok != "1", "spec_conforms": ok, "spec_parse": model.one(f"cmd.spec_parse {case['escape']}")}
