"""Extractor plug-in: IDManager constants and statement shapes -> coq/Gen/IdManagerGen.v"""
import ast
import re
from fractions import Fraction

from gen_tables import HEADER, ExtractError, body_nodoc, expect, extractor, find_class, find_func, parse


def norm_sql(s):
    return " ".join(s.split())


@extractor
def gen_idmanager(repo, out):
    im = parse(repo, "tupimage/id_manager.py")
    cls = find_class(im, "IDManager")
    fn = find_func(cls, "get_id")
    src = ast.unparse(fn)
    # thresholds
    m = re.search(r"subspace_size <= min\((\d+), self\.max_ids_per_subspace\)", src)
    expect(m, "get_id: enumeration threshold expression changed")
    limit = int(m.group(1))
    m = re.search(r"for j in range\((\d+)\):", src)
    expect(m, "get_id: sampling loop changed")
    tries = int(m.group(1))
    m = re.search(r"for frac in \[([^\]]*)\]:", src)
    expect(m, "get_id: clean-up fractions changed")
    fracs = [x.strip() for x in m.group(1).split(",")]
    expect(fracs and fracs[-1] == "0" and all(re.fullmatch(r"0(\.\d+)?", f) for f in fracs), f"get_id: fractions {fracs}")
    expect(re.search(r"if frac == 0:\n\s+break", src), "get_id: frac == 0 break")
    n_begin = src.count("BEGIN IMMEDIATE")
    expect(n_begin in (1, 2), f"get_id: {n_begin} BEGIN IMMEDIATE statements")
    one_txn = n_begin == 1
    expect("max_ids=min(int(subspace_size * frac), self.max_ids_per_subspace)" in src, "get_id: clean-up target expression changed")
    expect("if self.count(id_space, subspace) >= subspace_size:" in src, "get_id: fullness test changed")
    # statements (normalised text): the model was validated against exactly these
    sqls = sorted({norm_sql(n.value) for n in ast.walk(cls) if isinstance(n, ast.Constant) and isinstance(n.value, str) and re.search(r"\b(SELECT|INSERT|UPDATE|DELETE|BEGIN|CREATE|PRAGMA)\b", n.value)})
    joined = [norm_sql("".join(v.value if isinstance(v, ast.Constant) else "{}" for v in n.values)) for n in ast.walk(cls) if isinstance(n, ast.JoinedStr)]
    fp = sorted(set(sqls) | {j for j in joined if re.search(r"\b(SELECT|INSERT|UPDATE|DELETE|CREATE)\b", j)})
    must = [
        "SELECT id FROM {} WHERE description=? AND (id & ?) BETWEEN ? AND ?",
        "UPDATE {} SET atime=? WHERE id=?",
        "SELECT id FROM {} WHERE (id & ?) BETWEEN ? AND ? ORDER BY atime ASC LIMIT 1",
        "SELECT id, atime FROM {} WHERE (id & ?) BETWEEN ? AND ?",
        "SELECT id FROM {} WHERE id=?",
        "INSERT INTO {} (id, description, atime) VALUES (?, ?, ?) ON CONFLICT(id) DO UPDATE SET description=excluded.description, atime=excluded.atime",
        "DELETE FROM {} WHERE id=?",
        "DELETE FROM {} WHERE id IN ( SELECT id FROM {} WHERE (id & ?) BETWEEN ? AND ? ORDER BY atime ASC LIMIT ( SELECT MAX(COUNT(*) - ?, 0) FROM {} WHERE (id & ?) BETWEEN ? AND ? ) )",
        "SELECT COUNT(*) FROM {} WHERE (id & ?) BETWEEN ? AND ?",
        "SELECT id, description, atime FROM {} WHERE (id & ?) BETWEEN ? AND ? ORDER BY atime DESC",
        "SELECT description, atime FROM {} WHERE id=?",
        "SELECT description, upload_time, size FROM upload WHERE id=? AND terminal=?",
        "SELECT COUNT(*), SUM(size) FROM upload WHERE terminal = ? AND upload_time > ?",
        "DELETE FROM upload WHERE (id, terminal) NOT IN ( SELECT id, terminal FROM upload ORDER BY upload_time DESC LIMIT ? )",
    ]
    missing = [s for s in must if s not in fp]
    expect(not missing, f"IDManager: SQL statement(s) changed or missing: {missing[:3]}")
    # the default per-subspace maximum
    init = find_func(cls, "__init__")
    d = [ast.unparse(x) for x in init.args.kw_defaults]
    expect(d == ["1024"], f"IDManager.__init__ defaults {d}")
    # needs_uploading comparisons
    ui = find_class(im, "UploadInfo")
    nu = ast.unparse(find_func(ui, "needs_uploading"))
    expect("self.bytes_ago > max_bytes_ago or self.uploads_ago > max_uploads_ago or datetime.now() - self.upload_time > max_time_ago" in " ".join(nu.split()), "UploadInfo.needs_uploading comparisons changed")
    t = HEADER
    t += f"Definition enumerate_limit : Z := {limit}%Z.\n"
    t += f"Definition sample_tries : nat := {tries}%nat.\n"
    items = []
    for f in fracs:
        if f == "0":
            items.append("None")
        else:
            q = Fraction(f)
            items.append(f"Some ({q.numerator}, {q.denominator})")
    t += "Definition cleanup_fracs : list (option (N * N)) := [" + "; ".join(items) + "].\n"
    t += "Definition default_max_ids : Z := 1024%Z.\n"
    t += f"Definition sampling_in_one_txn : bool := {'true' if one_txn else 'false'}.\n"
    out.add("IdManagerGen.v", t)
