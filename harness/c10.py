"""C10 — ID spaces partition the 32-bit IDs; enumeration, size, membership, filters agree.

Correspondence: Model/IdSpace.v (extracted) vs tupimage.id_manager.IDSubspace / IDSpace (pure
functions, equality of results; `secrets.randbelow` replaced by a recorder whose values are fed to
the model as draws) and vs the SQL range filter executed by real sqlite3 through IDManager.
Oracle: Spec/IdLayoutSpec.v (extracted in_space_b / in_sub_b / sub_byte / valid_sub_b) evaluated on
the implementation's outputs, plus an independent count of the members of a subspace derived from
the byte layout (per-byte zero / non-zero classes), plus a direct transcription of the split clause.
"""
import itertools
import os

import common

GEN_DEPS = ("gen_idspace", "gen_pytrans")
EXTRA_PROPS = ("C10tr",)
ASSUMPTIONS = [
    "an ID space is one of the five feature sets of Spec/IdLayoutSpec.v; the subspace byte is byte 3 / byte 2 / byte 0 as stated there",
    "secrets.randbelow(n) returns some integer in [0, n) (the theorems quantify over all such values; the harness substitutes a recorder)",
    "sqlite evaluates `(id & ?) BETWEEN ? AND ?` as the model's sql_filter (compared with real sqlite3 on every run)",
    "int(str) is modelled for ASCII text only (whitespace, sign, digits with single underscores)",
]
TRUSTED = ["harness/gen_idspace.py EXPECTED text (shape of every IDSubspace / IDSpace method)",
           "ocaml/drv_c10.ml; the recorder that stands in for the `secrets` module"]

SPACES = [(0, 1), (8, 1), (24, 1), (8, 0), (24, 0)]  # (color_bits, use_3rd_diacritic) in all_values() order
SP_NAME = {(0, 1): "8bit_diacritic", (8, 1): "16bit", (24, 1): "32bit", (8, 0): "8bit", (24, 0): "24bit"}
SUB_BYTE_INDEX = {(0, 1): 3, (8, 1): 3, (24, 1): 3, (8, 0): 0, (24, 0): 2}
BYTE_CLASSES = [0, 1, 128, 255]


def all_subspaces():
    return [(b, e) for b in range(256) for e in range(b + 1, 257) if e != 1]


def boundary_subspaces(rng, n_random):
    s = {(0, 256), (0, 2), (0, 3), (0, 128), (0, 129), (0, 255), (1, 2), (1, 3), (1, 128), (1, 129), (1, 256), (2, 3), (127, 128), (127, 129),
         (128, 129), (128, 256), (129, 130), (129, 256), (254, 255), (254, 256), (255, 256), (100, 200), (64, 192)}
    for b in (0, 1, 2, 127, 128, 129, 254, 255):
        for e in (2, 3, 127, 128, 129, 130, 255, 256):
            if b < e:
                s.add((b, e))
    subs = all_subspaces()
    while len(s) < 200 + n_random:
        s.add(rng.choice(subs))
    return sorted(s)


def pick_sub(rng, subs):
    """Uniform over subspaces, with the rare classes begin = 0 and end = 256 boosted."""
    r = rng.random()
    if r < 0.25:
        return (0, rng.randrange(2, 257))
    if r < 0.35:
        return (rng.randrange(0, 256), 256)
    return rng.choice(subs)


# ---------------------------------------------------------------- independent reading of the layout
def spec_byte(k, i):
    return (i // 256 ** k) % 256


def spec_in_space_py(sp, i):
    """Python transcription of Spec.IdLayoutSpec.in_space (bytes only)."""
    if not (0 < i < 2 ** 32):
        return False
    b3, b2, b1, b0 = (spec_byte(k, i) for k in (3, 2, 1, 0))
    name = SP_NAME[sp]
    if name == "8bit_diacritic":
        return b3 != 0 and b2 == 0 and b1 == 0 and b0 == 0
    if name == "16bit":
        return b3 != 0 and b2 == 0 and b1 == 0 and b0 != 0
    if name == "32bit":
        return b3 != 0 and (b2 != 0 or b1 != 0)
    if name == "8bit":
        return b3 == 0 and b2 == 0 and b1 == 0 and b0 != 0
    return b3 == 0 and (b2 != 0 or b1 != 0)


def spec_in_sub_py(sp, s, i):
    """Python transcription of Spec.IdLayoutSpec.in_sub."""
    return spec_in_space_py(sp, i) and s[0] <= spec_byte(SUB_BYTE_INDEX[sp], i) < s[1]


def make_spec_pred(sp, s):
    """spec_in_sub_py specialised to one (space, subspace): same reading, bytes computed inline."""
    name = SP_NAME[sp]
    k = SUB_BYTE_INDEX[sp]
    lo, hi = s
    d3 = name in ("8bit_diacritic", "16bit", "32bit")

    def pred(i):
        if not 0 < i < 4294967296:
            return False
        b0 = i % 256
        b1 = i // 256 % 256
        b2 = i // 65536 % 256
        b3 = i // 16777216 % 256
        if (b3 != 0) != d3:
            return False
        if name in ("32bit", "24bit"):
            if b2 == 0 and b1 == 0:
                return False
        elif b2 != 0 or b1 != 0 or (b0 != 0) != (name != "8bit_diacritic"):
            return False
        return lo <= (b0, b1, b2, b3)[k] < hi
    return pred


def oracle_sample(l):
    """Indices of a list on which the extracted Spec predicate is evaluated (a fixed fraction: the
    ends, the middle and every 41st element; everything when the list is short).  The Python
    transcription is evaluated on every element."""
    n = len(l)
    if n <= 300:
        return list(range(n))
    return sorted(set(range(3)) | {n // 2} | set(range(n - 3, n)) | set(range(0, n, 41)))


def spec_histogram(sp):
    """h[x] = number of IDs of the space whose subspace byte is x, counted over the zero / non-zero
    classes of the four bytes (weights 1 / 255) with the Spec predicate on one representative."""
    k = SUB_BYTE_INDEX[sp]
    h = [0] * 256
    for cls in itertools.product((0, 1), repeat=4):  # cls[j] = 1: byte j non-zero
        rep = sum((7 if c else 0) << (8 * j) for j, c in enumerate(cls))
        if not spec_in_space_py(sp, rep):
            continue
        w = 1
        for j, c in enumerate(cls):
            if j != k:
                w *= 255 if c else 1
        for x in (range(1, 256) if cls[k] else (0,)):
            h[x] += w
    return h


def spec_split_ok(b, e, k, parts):
    """The split clause, read directly: k parts, each a valid subspace with a non-zero byte value,
    first begins at b, last ends at e, consecutive parts abut."""
    if len(parts) != k:
        return "number of parts"
    for (pb, pe) in parts:
        if not (0 <= pb < pe <= 256) or pe == 1:
            return "invalid part"
    if parts[0][0] != b:
        return "first part does not begin at begin"
    if parts[-1][1] != e:
        return "last part does not end at end"
    for p, q in zip(parts, parts[1:]):
        if p[1] != q[0]:
            return "parts do not abut"
    return None


# ---------------------------------------------------------------- helpers
def exc_name(fn, *a):
    try:
        return ("ok", fn(*a))
    except ValueError:
        return ("E", "ValueError")
    except Exception as ex:  # noqa
        return ("X", type(ex).__name__)


class Recorder:
    """Stands in for the `secrets` module: randbelow(n) returns a seeded value and records (n, value)."""

    def __init__(self, rng):
        self.rng = rng
        self.log = []

    def randbelow(self, n):
        if n <= 0:
            raise ValueError("Upper bound must be positive.")
        r = self.rng.random()
        v = 0 if r < 0.2 else (n - 1 if r < 0.4 else self.rng.randrange(n))
        self.log.append((n, v))
        return v


def sp_args(sp):
    return f"{sp[0]} {sp[1]}"


def viol(ctx, klass, what, case, **sig):
    ctx.violations.append({"signature": dict({"class": klass}, **sig), "what": what, "case": case})


def brk(ctx, what, case, impl, model):
    if len(ctx.corr_breaks) < 200:
        ctx.corr_breaks.append({"what": what, "case": case, "impl": impl, "model": model})


# ---------------------------------------------------------------- the run
def run(ctx, model):
    cov = common.Coverage("case = (function, space, subspace, id / draws / count / string); non-trivial = valid input; distinct by hash of the case")
    if model is None:
        return cov
    common.scrub_process_env()
    tup = common.import_impl()
    idm = tup.id_manager
    S = {sp: idm.IDSpace(sp[0], bool(sp[1])) for sp in SPACES}
    subs = all_subspaces()
    SUB = {s: idm.IDSubspace(*s) for s in subs}
    hist = {sp: spec_histogram(sp) for sp in SPACES}
    prefix = {sp: [0] + list(itertools.accumulate(hist[sp])) for sp in SPACES}

    def spec_count(sp, s):
        return prefix[sp][s[1]] - prefix[sp][s[0]]

    import time
    steps = [
        ("spaces", lambda: check_spaces(ctx, model, idm, S, cov)),
        ("static", lambda: check_static(ctx, model, idm, S, SUB, subs, spec_count, cov)),
        ("members", lambda: check_members(ctx, model, idm, S, SUB, cov)),
        ("all_ids", lambda: check_all_ids(ctx, model, idm, S, SUB, subs, spec_count, cov)),
        ("gen", lambda: check_gen(ctx, model, idm, S, SUB, subs, cov)),
        ("split", lambda: check_split(ctx, model, idm, SUB, subs, cov)),
        ("ctor_helpers", lambda: check_ctor_and_helpers(ctx, model, idm, SUB, subs, cov)),
        ("strings", lambda: check_strings(ctx, model, idm, S, SUB, subs, cov)),
        ("sqlite", lambda: check_sqlite(ctx, model, idm, S, SUB, cov)),
        # the subspace a TupimageTerminal draws from after its id_space / id_subspace was re-assigned on the live object is the
        # one a terminal constructed with the new values draws from (ids, evictions, listings agree)
        ("highlevel", lambda: __import__("c08_cli").reconfigure_equivalence(ctx, cov, ctx.pick(16, 80), must_change=["id_subspace", "id_space"])),
    ]
    timing = {}
    for name, fn in steps:
        t = time.time()
        fn()
        timing[name] = round(time.time() - t, 1)
    ctx.notes.append(f"seconds per part: {timing}")
    return cov


def check_spaces(ctx, model, idm, S, cov):
    impl = [(s.color_bits, int(s.use_3rd_diacritic)) for s in idm.IDSpace.all_values()]
    rep = model.one("c10.all_spaces")
    got = [tuple(int(x) for x in p.split(",")) for p in rep.split()]
    cov.add({"f": "all_values"}, klass="all_values")
    if impl != got:
        brk(ctx, "IDSpace.all_values differs from Model.all_spaces", {}, impl, got)
    if sorted(impl) != sorted(SPACES):
        viol(ctx, "not-five-spaces", f"IDSpace.all_values() yields {impl}", {"kind": "all_values"})
    # constructor: every (color_bits, use_3rd) in a small grid
    reqs, cases = [], []
    for cb in (-1, 0, 1, 8, 16, 24, 32):
        for d in (0, 1):
            r = exc_name(lambda: idm.IDSpace(cb, bool(d)))
            if cb < 0:
                continue
            cases.append((cb, d, r))
            reqs.append(f"c10.mk_space {cb} {d}")
    for (cb, d, r), rep in zip(cases, model.batch(reqs)):
        cov.add({"f": "IDSpace", "cb": cb, "d": d}, nontrivial=r[0] == "ok", klass="IDSpace-ctor")
        m = "E" if rep == "E" else "ok"
        if (r[0] if r[0] != "X" else r[1]) != m:
            brk(ctx, "IDSpace constructor validity differs from Model.mk_space", {"cb": cb, "d": d}, r[1] if r[0] != "ok" else "ok", rep)


def check_static(ctx, model, idm, S, SUB, subs, spec_count, cov):
    """subspace_size, offset, mask, masked_range: all 5 x 32895 pairs."""
    reqs, impl = [], []
    for sp in SPACES:
        s_ = S[sp]
        off, mask = s_.subspace_byte_offset(), s_.subspace_byte_mask()
        for s in subs:
            sub = SUB[s]
            mb, me = s_.subspace_masked_range(sub)
            impl.append((s_.subspace_size(sub), off, mask, mb, me))
            reqs.append(f"c10.static {sp_args(sp)} {s[0]} {s[1]}")
    reps = model.batch(reqs)
    i = 0
    for sp in SPACES:
        for s in subs:
            got = tuple(int(x) for x in reps[i].split())
            case = {"kind": "size", "sp": sp, "sub": s}
            cov.add(case, klass=f"static/{SP_NAME[sp]}/{'b=0' if s[0] == 0 else 'b>0'}", sample_every=40009)
            if got != impl[i]:
                brk(ctx, "subspace_size/offset/mask/masked_range differ from the model", case, impl[i], got)
            want = spec_count(sp, s)
            if impl[i][0] != want:
                viol(ctx, "size-not-member-count", f"{SP_NAME[sp]}.subspace_size({s[0]}:{s[1]}) = {impl[i][0]} but the byte layout has {want} members",
                     case, space=SP_NAME[sp])
            i += 1


def gen_ids(ctx):
    ids = [sum(c << (8 * j) for j, c in enumerate(cs)) for cs in itertools.product(BYTE_CLASSES, repeat=4)]
    return ids


def check_members(ctx, model, idm, S, SUB, cov):
    rng = ctx.rng
    ids = gen_ids(ctx)  # 256 byte-class ids, 0 included
    bsubs = boundary_subspaces(rng, 0)
    # 1. classification of every probe id, and of invalid ones
    probe = list(ids) + [2 ** 32 - 1, 2 ** 32, 2 ** 32 + 5, 2 ** 40, -1, -255, -2 ** 31, -2 ** 32, 2 ** 24, 2 ** 16, 2 ** 8, 2 ** 24 - 1, 2 ** 16 - 1]
    probe += [rng.randrange(1, 2 ** 32) for _ in range(ctx.pick(20000, 1000000))]
    reps = model.batch([f"c10.classify {i}" for i in probe])
    for i, rep in zip(probe, reps):
        r1 = exc_name(idm.IDSpace.from_id, i)
        r2 = exc_name(idm.IDSpace.get_subspace_byte, i)
        a = "E" if r1[0] != "ok" else f"{r1[1].color_bits},{int(r1[1].use_3rd_diacritic)}"
        b = "E" if r2[0] != "ok" else str(r2[1])
        case = {"kind": "classify", "id": i}
        valid = 0 < i < 2 ** 32
        cov.add(case, nontrivial=valid, klass="classify/" + ("invalid" if not valid else "valid"), sample_every=20011)
        if r1[0] == "X" or r2[0] == "X" or f"{a} {b}" != rep:
            brk(ctx, "from_id / get_subspace_byte differ from the model", case, f"{a} {b}", rep)
        # oracle: the space computed is the one the layout gives, exactly one space, byte as laid out
        if valid:
            owners = [sp for sp in SPACES if spec_in_space_py(sp, i)]
            if r1[0] != "ok" or len(owners) != 1 or (r1[1].color_bits, int(r1[1].use_3rd_diacritic)) != owners[0]:
                viol(ctx, "partition", f"from_id({i:#x}) = {a}, byte layout says {[SP_NAME[o] for o in owners]}", case)
            elif r2[0] != "ok" or r2[1] != spec_byte(SUB_BYTE_INDEX[owners[0]], i):
                viol(ctx, "subspace-byte", f"get_subspace_byte({i:#x}) = {b}, byte layout says {spec_byte(SUB_BYTE_INDEX[owners[0]], i)}", case)
        elif r1[0] == "ok":
            viol(ctx, "invalid-id-accepted", f"from_id({i}) accepted an id outside 1..2^32-1", case)
    # 2. membership: byte-class ids x boundary subspaces x spaces, then random triples
    triples = [(sp, s, i) for sp in SPACES for s in bsubs for i in ids]
    allsubs = all_subspaces()
    for _ in range(ctx.pick(20000, 300000)):
        sp = rng.choice(SPACES)
        s = pick_sub(rng, allsubs)
        k = SUB_BYTE_INDEX[sp]
        i = rng.randrange(1, 2 ** 32)
        r = rng.random()
        if r < 0.6:  # force the id into the space, subspace byte near the range ends
            x = rng.choice([s[0] - 1, s[0], s[0] + 1, s[1] - 1, s[1], rng.randrange(256)]) % 256
            bs = [rng.randrange(256) for _ in range(4)]
            name = SP_NAME[sp]
            bs[3] = 0 if name in ("8bit", "24bit") else (bs[3] or 1)
            if name in ("8bit", "16bit", "8bit_diacritic"):
                bs[1] = bs[2] = 0
                bs[0] = 0 if name == "8bit_diacritic" else (bs[0] or 1)
            bs[k] = x
            i = sum(v << (8 * j) for j, v in enumerate(bs))
        triples.append((sp, s, i))
    reps = model.batch([f"c10.member {sp_args(sp)} {s[0]} {s[1]} {i}" for sp, s, i in triples])
    for (sp, s, i), rep in zip(triples, reps):
        r1 = exc_name(S[sp].contains, i)
        r2 = exc_name(S[sp].contains_and_in_subspace, i, SUB[s])
        a = "E" if r1[0] != "ok" else str(int(bool(r1[1])))
        b = "E" if r2[0] != "ok" else str(int(bool(r2[1])))
        m_contains, m_cais, m_filter, spec_sp, spec_sub = rep.split()
        case = {"kind": "member", "sp": sp, "sub": s, "id": i}
        cov.add(case, nontrivial=i != 0, klass=f"member/{SP_NAME[sp]}/{'in' if spec_sub == '1' else ('space-only' if spec_sp == '1' else 'out')}", sample_every=30011)
        if (a, b) != (m_contains, m_cais) or r1[0] == "X" or r2[0] == "X":
            brk(ctx, "contains / contains_and_in_subspace differ from the model", case, [a, b], [m_contains, m_cais])
        if i == 0:
            continue
        if a != spec_sp:
            viol(ctx, "contains", f"{SP_NAME[sp]}.contains({i:#x}) = {a}, byte layout says {spec_sp}", case, space=SP_NAME[sp])
        if b != spec_sub:
            viol(ctx, "contains-and-in-subspace", f"{SP_NAME[sp]}.contains_and_in_subspace({i:#x}, {s[0]}:{s[1]}) = {b}, byte layout says {spec_sub}", case, space=SP_NAME[sp])
        # the Python expression of the range filter on the implementation's own mask and range
        mb, me = S[sp].subspace_masked_range(SUB[s])
        f = int(mb <= (i & S[sp].subspace_byte_mask()) <= me - 1)
        if str(f) != m_filter:
            brk(ctx, "range filter on the implementation's mask/range differs from Model.sql_filter", case, f, m_filter)
        if spec_sp == "1" and str(f) != spec_sub:
            viol(ctx, "range-filter", f"(id & mask) BETWEEN begin AND end-1 is {f} for {i:#x} in {SP_NAME[sp]} {s[0]}:{s[1]}, byte layout says {spec_sub}", case, space=SP_NAME[sp])


def _ints(rep):
    return [] if rep == "-" else [int(x) for x in rep.split(",")]


def check_all_ids(ctx, model, idm, S, SUB, subs, spec_count, cov):
    rng = ctx.rng
    full = []  # (sp, sub) enumerated completely
    for sp in ((0, 1), (8, 0)):
        for s in (subs if True else []):
            full.append((sp, s))
    bsubs = boundary_subspaces(rng, 0)
    pick16 = [s for s in bsubs if (s[1] - s[0]) <= 64][:ctx.pick(60, 150)] + [(0, 256), (1, 256), (0, 255), (100, 200)]
    pick16 += [rng.choice(subs) for _ in range(ctx.pick(30, 1800))]
    for s in pick16:
        full.append(((8, 1), s))
    narrow = [s for s in subs if s[1] - s[0] <= 2]
    pick24 = [(0, 2), (0, 3), (1, 2), (1, 3), (255, 256), (254, 256), (127, 128), (128, 129), (2, 3)]
    pick24 += [rng.choice(narrow) for _ in range(ctx.pick(8, 300))]
    for s in pick24:
        full.append(((24, 0), s))
    CH = 4000
    for off in range(0, len(full), CH):
        chunk = full[off:off + CH]
        reps = model.batch([f"c10.all_ids {sp_args(sp)} {s[0]} {s[1]}" for sp, s in chunk])
        impl = [list(S[sp].all_ids(SUB[s])) for sp, s in chunk]
        samples = [oracle_sample(l) for l in impl]
        oracle = model.batch([f"c10.spec_in_sub_many {sp_args(sp)} {s[0]} {s[1]} {','.join(str(l[j]) for j in idx) if idx else '-'}"
                              for (sp, s), l, idx in zip(chunk, impl, samples)])
        for (sp, s), rep, l, orc, idx in zip(chunk, reps, impl, oracle, samples):
            case = {"kind": "all_ids", "sp": sp, "sub": s}
            cov.add(case, klass=f"all_ids-full/{SP_NAME[sp]}", sample_every=20011)
            if _ints(rep) != l:
                ml = _ints(rep)
                d = next((j for j, (x, y) in enumerate(zip(ml, l)) if x != y), min(len(ml), len(l)))
                brk(ctx, "all_ids differs from the model (compared as lists)", case, {"len": len(l), "at": d, "ids": l[d:d + 3]}, {"len": len(ml), "ids": ml[d:d + 3]})
            bad = [l[j] for j, o in zip(idx, orc) if o != "1"] if idx else []
            pred = make_spec_pred(sp, s)
            bad_py = [x for x in l if not pred(x)]
            if bool(bad) != bool([l[j] for j in idx if not spec_in_sub_py(sp, s, l[j])]):
                brk(ctx, "extracted Spec predicate and its Python transcription disagree", case, bad_py[:3], bad[:3])
            bad = bad or bad_py
            if bad:
                viol(ctx, "all_ids-non-member", f"{SP_NAME[sp]}.all_ids({s[0]}:{s[1]}) yields {bad[0]:#x}, not a member by the byte layout", dict(case, id=bad[0]), space=SP_NAME[sp])
            if len(set(l)) != len(l):
                viol(ctx, "all_ids-duplicate", f"{SP_NAME[sp]}.all_ids({s[0]}:{s[1]}) yields an id twice", case, space=SP_NAME[sp])
            elif not bad and len(l) != spec_count(sp, s):
                viol(ctx, "all_ids-incomplete", f"{SP_NAME[sp]}.all_ids({s[0]}:{s[1]}) yields {len(l)} ids, the byte layout has {spec_count(sp, s)} members", case, space=SP_NAME[sp])
            if S[sp].subspace_size(SUB[s]) != len(l):
                viol(ctx, "size-not-enumeration-length", f"{SP_NAME[sp]}.subspace_size({s[0]}:{s[1]}) = {S[sp].subspace_size(SUB[s])}, all_ids yields {len(l)}", case, space=SP_NAME[sp])
    # windows of the enumerations that are too big: blocks of the triple loop, located with the
    # model's list lengths
    wins = []
    for sp in ((24, 1), (24, 0)):
        ss = [(0, 256), (1, 256), (0, 2), (5, 9), (255, 256), (100, 200)] + [rng.choice(subs) for _ in range(ctx.pick(6, 60))]
        for s in ss:
            wins.append((sp, s, "head"))
        for s in ss[:ctx.pick(2, 6)] + [rng.choice(subs) for _ in range(ctx.pick(1, 12))]:
            wins.append((sp, s, "deep"))
    lens = model.batch([f"c10.vals_len {sp_args(sp)} {s[0]} {s[1]}" for sp, s, _ in wins])
    reqs, plan = [], []
    for (sp, s, where), ln in zip(wins, lens):
        n3, n12, n0 = (int(x) for x in ln.split())
        if where == "head":
            blocks = [(0, 0, min(n12, 20))]
        else:  # the end of the first byte_3 block and the beginning of the next one (or just the end)
            lo = max(0, n12 - 12)
            blocks = [(0, lo, n12 - lo)] + ([(1, 0, 8)] if n3 > 1 else [])
        start = (blocks[0][0] * n12 + blocks[0][1]) * n0
        count = sum(b[2] for b in blocks) * n0
        plan.append((sp, s, where, start, count, len(blocks)))
        for (i3, lo, n) in blocks:
            reqs.append(f"c10.all_ids_block {sp_args(sp)} {s[0]} {s[1]} {i3} {lo} {n}")
    reps = iter(model.batch(reqs))
    for sp, s, where, start, count, nb in plan:
        ml = []
        for _ in range(nb):
            ml += _ints(next(reps))
        l = list(itertools.islice(S[sp].all_ids(SUB[s]), start, start + count))
        case = {"kind": "all_ids_window", "sp": sp, "sub": s, "start": start, "count": count}
        cov.add(case, klass=f"all_ids-window/{SP_NAME[sp]}/{where}")
        if ml != l:
            d = next((j for j, (x, y) in enumerate(zip(ml, l)) if x != y), min(len(ml), len(l)))
            brk(ctx, "window of all_ids differs from the model", case, {"len": len(l), "at": d, "ids": l[d:d + 3]}, {"len": len(ml), "ids": ml[d:d + 3]})
        orc = model.one(f"c10.spec_in_sub_many {sp_args(sp)} {s[0]} {s[1]} {','.join(map(str, l)) if l else '-'}")
        bad = [x for x, o in zip(l, orc) if o != "1"] if l else []
        if bad:
            viol(ctx, "all_ids-non-member", f"{SP_NAME[sp]}.all_ids({s[0]}:{s[1]}) yields {bad[0]:#x}, not a member by the byte layout", dict(case, id=bad[0]), space=SP_NAME[sp])
        if len(set(l)) != len(l):
            viol(ctx, "all_ids-duplicate", f"{SP_NAME[sp]}.all_ids({s[0]}:{s[1]}) yields an id twice", case, space=SP_NAME[sp])


def check_gen(ctx, model, idm, S, SUB, subs, cov):
    rng = ctx.rng
    rec = Recorder(rng)
    saved = idm.secrets
    idm.secrets = rec
    cases = []
    try:
        bsubs = boundary_subspaces(rng, 0)
        for j in range(ctx.pick(30000, 400000)):
            sp = SPACES[j % 5]
            s = rng.choice(bsubs) if rng.random() < 0.4 else pick_sub(rng, subs)
            rec.log = []
            r = exc_name(S[sp].gen_random_id, SUB[s])
            cases.append((sp, s, r, list(rec.log)))
        # default argument
        for sp in SPACES:
            rec.log = []
            r = exc_name(S[sp].gen_random_id)
            cases.append((sp, (0, 256), r, list(rec.log)))
    finally:
        idm.secrets = saved
    reqs = [f"c10.gen {sp_args(sp)} {s[0]} {s[1]} {','.join(str(v) for _, v in log) if log else '-'}" for sp, s, r, log in cases]
    reps = model.batch(reqs)
    # oracle on the implementation's ids, batched per (space, subspace)
    orc = model.batch([f"c10.spec_in_sub_many {sp_args(sp)} {s[0]} {s[1]} {r[1] if r[0] == 'ok' and r[1] >= 0 else 0}" for sp, s, r, log in cases])
    seen = {}
    for (sp, s, r, log), rep, o in zip(cases, reps, orc):
        draws = [v for _, v in log]
        case = {"kind": "gen", "sp": sp, "sub": s, "draws": draws}
        edge = any(v in (0, n - 1) for n, v in log)
        cov.add(case, klass=f"gen/{SP_NAME[sp]}/{len(log)}draws/{'edge' if edge else 'inner'}", sample_every=10007)
        want = f"D {r[1]} {','.join(str(n) for n, _ in log) if log else '-'} -" if r[0] == "ok" else r[1]
        if rep != want:
            brk(ctx, "gen_random_id (result, bounds asked of randbelow, draws consumed) differs from the model", case, want, rep)
        if r[0] != "ok":
            viol(ctx, "gen-raises", f"{SP_NAME[sp]}.gen_random_id({s[0]}:{s[1]}) raised {r[1]}", case, space=SP_NAME[sp])
        elif o != "1":
            viol(ctx, "gen-non-member", f"{SP_NAME[sp]}.gen_random_id({s[0]}:{s[1]}) = {r[1]:#x} with draws {draws}: not a member by the byte layout",
                 case, space=SP_NAME[sp])
        if r[0] == "ok":
            seen.setdefault((sp, s), set()).add(r[1])
    # completeness, on the two 8-bit spaces with the full subspace sampled separately: every member reachable
    for sp in ((0, 1), (8, 0)):
        for s in ((0, 4), (250, 256), (1, 3)):
            members = set(S[sp].all_ids(SUB[s]))
            n = len(members)
            sub = SUB[s]
            got = set()
            idm.secrets = DrawAll()
            try:
                for d in range(n):
                    idm.secrets.next = d
                    got.add(S[sp].gen_random_id(sub))
            finally:
                idm.secrets = saved
            cov.add({"kind": "gen_complete", "sp": sp, "sub": s}, klass="gen/complete-8bit")
            if got != members:
                viol(ctx, "gen-incomplete", f"{SP_NAME[sp]}.gen_random_id({s[0]}:{s[1]}) cannot produce {sorted(members - got)[:3]}", {"kind": "gen_complete", "sp": sp, "sub": s}, space=SP_NAME[sp])

    # completeness by exhaustive enumeration of the draws (every value randbelow can return, depth first), for
    # subspaces small enough: the set of ids produced must be exactly the set of members
    class NeedMore(Exception):
        def __init__(self, n):
            self.n = n

    class Planned:
        def __init__(self, plan):
            self.plan, self.i = plan, 0

        def randbelow(self, n):
            if self.i >= len(self.plan):
                raise NeedMore(n)
            d = self.plan[self.i]
            self.i += 1
            if not 0 <= d < n:
                raise ValueError("planned draw out of range")
            return d

    exhaustive = [((8, 1), (1, 3)), ((8, 1), (0, 2)), ((24, 0), (0, 2)), ((24, 0), (3, 4))]
    if not ctx.quick():
        exhaustive += [((24, 0), (0, 3)), ((24, 0), (254, 256)), ((8, 1), (250, 256))]
    for sp, s in exhaustive:
        sub = idm.IDSubspace(*s)
        got = set()
        stack = [[]]
        runs = 0
        try:
            while stack:
                plan = stack.pop()
                idm.secrets = Planned(plan)
                try:
                    got.add(S[sp].gen_random_id(sub))
                    runs += 1
                except NeedMore as e:
                    stack.extend(plan + [d] for d in range(e.n))
        finally:
            idm.secrets = saved
        members = set(S[sp].all_ids(sub))
        spec_members = {i for i in members if spec_in_sub_py(sp, s, i)}
        cov.add({"kind": "gen_exhaustive", "sp": sp, "sub": s, "draw_sequences": runs}, klass="gen/exhaustive-draws")
        if got != spec_members or members != spec_members:
            missing = sorted(spec_members - got)[:3]
            extra = sorted(got - spec_members)[:3]
            viol(ctx, "gen-incomplete", f"{SP_NAME[sp]}.gen_random_id({s[0]}:{s[1]}) over ALL {runs} draw sequences: members never produced {[hex(x) for x in missing]}, non-members produced {[hex(x) for x in extra]}",
                 {"kind": "gen_complete", "sp": sp, "sub": s}, space=SP_NAME[sp])


class DrawAll:
    """randbelow(n) -> self.next (must be < n)."""
    next = 0

    def randbelow(self, n):
        if not 0 <= self.next < n:
            raise ValueError("draw out of range")
        return self.next


def check_split(ctx, model, idm, SUB, subs, cov):
    rng = ctx.rng
    cases = []
    if ctx.quick():
        for s in subs:
            mx = s[1] - 1 if s[0] == 0 else s[1] - s[0]
            cases.append((s, mx))
            cases.append((s, mx + 1))
        for _ in range(20000):
            s = pick_sub(rng, subs)
            mx = s[1] - 1 if s[0] == 0 else s[1] - s[0]
            cases.append((s, rng.choice([rng.randint(1, mx), rng.randint(1, mx), 2, mx - 1, mx // 2, rng.randint(-3, 260)])))
        for s in boundary_subspaces(rng, 0):
            for k in (-1, 0, 1, 2, 3, 255, 256, 257):
                cases.append((s, k))
    else:
        for s in subs:
            mx = s[1] - 1 if s[0] == 0 else s[1] - s[0]
            for k in range(-1, mx + 3):
                cases.append((s, k))
    CH = 200000
    for off in range(0, len(cases), CH):
        chunk = cases[off:off + CH]
        reps = model.batch([f"c10.split {s[0]} {s[1]} {k}" for s, k in chunk])
        for (s, k), rep in zip(chunk, reps):
            r = exc_name(SUB[s].split, k)
            mx = s[1] - 1 if s[0] == 0 else s[1] - s[0]
            case = {"kind": "split", "sub": s, "k": k}
            kl = "k<=0" if k <= 0 else ("k=1" if k == 1 else ("k=max" if k == mx else ("k>max" if k > mx else "1<k<max")))
            cov.add(case, nontrivial=1 <= k <= mx, klass=f"split/{kl}/{'b=0' if s[0] == 0 else 'b>0'}", sample_every=50021)
            if r[0] == "ok":
                parts = [(p.begin, p.end) for p in r[1]]
                got = "OK " + ",".join(f"{b}:{e}" for b, e in parts)
            else:
                got = r[1]
            if got != rep:
                brk(ctx, "IDSubspace.split differs from the model", case, got[:300], rep[:300])
            if 1 <= k <= mx:
                why = "raised " + r[1] if r[0] != "ok" else spec_split_ok(s[0], s[1], k, parts)
                if why:
                    viol(ctx, "split-parts", f"IDSubspace({s[0]},{s[1]}).split({k}): {why}", case)
            elif r[0] == "ok":
                viol(ctx, "split-accepts-bad-count", f"IDSubspace({s[0]},{s[1]}).split({k}) returned {len(parts)} parts", case)


def check_ctor_and_helpers(ctx, model, idm, SUB, subs, cov):
    rng = ctx.rng
    pairs = [(b, e) for b in range(-1, 258) for e in range(-1, 258)]
    reps = model.batch([f"c10.mk_sub {b} {e}" for b, e in pairs])
    valid = model.batch([f"c10.spec_valid_sub {max(b, 0)} {max(e, 0)}" for b, e in pairs])
    for (b, e), rep, v in zip(pairs, reps, valid):
        r = exc_name(idm.IDSubspace, b, e)
        got = f"{r[1].begin}:{r[1].end}" if r[0] == "ok" else ("E" if r[0] == "E" else r[1])
        case = {"kind": "ctor", "b": b, "e": e}
        cov.add(case, nontrivial=r[0] == "ok", klass="IDSubspace-ctor/" + ("ok" if r[0] == "ok" else "rejected"), sample_every=20011)
        if got != rep:
            brk(ctx, "IDSubspace constructor differs from Model.mk_subspace", case, got, rep)
        spec_ok = b >= 0 and e >= 0 and v.split()[0] == "1"
        if spec_ok != (r[0] == "ok"):
            viol(ctx, "subspace-validity", f"IDSubspace({b},{e}) {'accepted' if r[0] == 'ok' else 'rejected'}; a subspace is a byte range with a non-zero value", case)
    d = idm.IDSubspace()
    if (d.begin, d.end) != (0, 256):
        viol(ctx, "default-subspace", f"IDSubspace() = {d.begin}:{d.end}", {"kind": "ctor_default"})
    sample = subs if not ctx.quick() else boundary_subspaces(rng, 1300)
    reps = model.batch([f"c10.sub_helpers {b} {e}" for b, e in sample])
    for s, rep in zip(sample, reps):
        sub = SUB[s]
        nb, nz, av, anz, cb = rep.split()
        impl = (sub.num_byte_values(), sub.num_nonzero_byte_values(), list(sub.all_byte_values()), list(sub.all_nonzero_byte_values()),
                "".join(str(int(bool(sub.contains_byte(x)))) for x in range(258)))
        got = (int(nb), int(nz), _ints(av), _ints(anz), cb)
        case = {"kind": "helpers", "sub": s}
        cov.add(case, klass="subspace-helpers/" + ("b=0" if s[0] == 0 else "b>0"), sample_every=5003)
        if impl != got:
            brk(ctx, "IDSubspace helper differs from the model", case, [impl[0], impl[1], impl[2][:3], impl[3][:3]], [got[0], got[1], got[2][:3], got[3][:3]])
        want_nz = [x for x in range(s[0], s[1]) if x != 0]
        if impl[3] != want_nz or impl[1] != len(want_nz) or impl[2] != list(range(s[0], s[1])) or impl[0] != s[1] - s[0]:
            viol(ctx, "subspace-helpers", f"IDSubspace({s[0]},{s[1]}) byte-value helpers disagree with the range", case)


def check_strings(ctx, model, idm, S, SUB, subs, cov):
    rng = ctx.rng
    # spaces
    reps = model.batch([f"c10.space_str {sp_args(sp)}" for sp in SPACES])
    for sp, rep in zip(SPACES, reps):
        a, b, c = rep.split()
        impl = (str(S[sp]).encode().hex(), S[sp].namespace_name().encode().hex(), str(S[sp].num_nonzero_bits()))
        cov.add({"kind": "space_str", "sp": sp}, klass="space-to-string")
        if impl != (a, b, c):
            brk(ctx, "IDSpace.__str__/namespace_name/num_nonzero_bits differ from the model", {"sp": sp}, impl, rep)
        back = exc_name(idm.IDSpace.from_string, str(S[sp]))
        if back[0] != "ok" or back[1] != S[sp]:
            viol(ctx, "space-string-roundtrip", f"IDSpace.from_string(str({SP_NAME[sp]})) gives {back[1]}", {"kind": "space_str", "sp": sp})
    names = ["32", "32bit", "24", "24bit", "8d", "8bit_diacritic", "8", "8bit", "256", "16", "16d", "16bit", "16bit_diacritic"]
    bad = ["", " ", "32 ", " 32", "32BIT", "0", "64", "8bit_d", "16bit_diacritics", "bit", "8 bit", "24d", "32d", "255", "2560", "8\n", "16\x00", "ids_8bit"]
    for _ in range(ctx.pick(200, 3000)):
        n = rng.choice(names)
        j = rng.randrange(len(n) + 1)
        bad.append(n[:j] + rng.choice(["", "x", "_", " ", "d", "1"]) + n[j + rng.randrange(2):])
    strs = names + bad
    reps = model.batch([f"c10.space_from_string {common.hexs(x.encode())}" for x in strs])
    for x, rep in zip(strs, reps):
        r = exc_name(idm.IDSpace.from_string, x)
        got = f"{r[1].color_bits},{int(r[1].use_3rd_diacritic)}" if r[0] == "ok" else ("E" if r[0] == "E" else r[1])
        cov.add({"kind": "space_from_string", "s": x}, nontrivial=r[0] == "ok", klass="space-from-string/" + ("ok" if r[0] == "ok" else "rejected"))
        if got != rep:
            brk(ctx, "IDSpace.from_string differs from the model", {"s": x}, got, rep)
    # subspaces
    sample = boundary_subspaces(rng, ctx.pick(1500, 20000))
    reps = model.batch([f"c10.sub_to_string {b} {e}" for b, e in sample])
    for s, rep in zip(sample, reps):
        cov.add({"kind": "sub_str", "sub": s}, klass="subspace-to-string", sample_every=5003)
        if str(SUB[s]).encode().hex() != rep:
            brk(ctx, "IDSubspace.__str__ differs from the model", {"sub": s}, str(SUB[s]), rep)
        back = exc_name(idm.IDSubspace.from_string, str(SUB[s]))
        if back[0] != "ok" or back[1] != SUB[s]:
            viol(ctx, "subspace-string-roundtrip", f"IDSubspace.from_string(str({s})) gives {back[1]}", {"kind": "sub_str", "sub": s})
    strs = ["", ":", "0:256", "0:1", "0:2", "1:1", "2:1", "-1:5", "0:257", "256:256", " 1 : 5 ", "+1:+5", "1_0:2_0", "1__0:20", "_1:2", "1_:2", "1:2:3", "1", "a:b",
            "1:", ":5", "0x1:5", "1.0:5", "3:5", "\t3:\n5", "3:5\x1f", "- 1:5", "--1:5", "+-1:5", "00:0256", "0:00256", "1e2:200", " : ", "1 2:5", "1:5 6"]
    alphabet = "0123456789:_+- \t\nx"
    for _ in range(ctx.pick(3000, 60000)):
        if rng.random() < 0.5:
            b, e = rng.randrange(-2, 260), rng.randrange(-2, 260)
            t = f"{rng.choice(['', ' ', '+', '0', '\t'])}{b}{rng.choice(['', ' ', '_'])}:{rng.choice(['', ' ', '+', '00'])}{e}{rng.choice(['', ' ', '\n', '_', ':'])}"
        else:
            t = "".join(rng.choice(alphabet) for _ in range(rng.randrange(1, 9)))
        strs.append(t)
    reps = model.batch([f"c10.sub_from_string {common.hexs(x.encode())}" for x in strs])
    for x, rep in zip(strs, reps):
        r = exc_name(idm.IDSubspace.from_string, x)
        got = f"{r[1].begin}:{r[1].end}" if r[0] == "ok" else ("E" if r[0] == "E" else r[1])
        cov.add({"kind": "sub_from_string", "s": x}, nontrivial=r[0] == "ok", klass="subspace-from-string/" + ("ok" if r[0] == "ok" else "rejected"), sample_every=5003)
        if got != rep:
            brk(ctx, "IDSubspace.from_string differs from the model", {"s": x}, got, rep)


def check_sqlite(ctx, model, idm, S, SUB, cov):
    """The WHERE clause as sqlite evaluates it, through IDManager.count / get_all."""
    rng = ctx.rng
    db = os.path.join(ctx.work, "c10.db")
    m = idm.IDManager(db)
    try:
        ids = [i for i in gen_ids(ctx) if i != 0]
        for sp in SPACES:
            k = SUB_BYTE_INDEX[sp]
            for x in (0, 1, 2, 3, 126, 127, 128, 129, 253, 254, 255):
                bs = [5, 0, 0, 0]
                name = SP_NAME[sp]
                bs[3] = 0 if name in ("8bit", "24bit") else 9
                if name in ("32bit", "24bit"):
                    bs[1] = 7
                if name == "8bit_diacritic":
                    bs[0] = 0
                bs[k] = x
                i = sum(v << (8 * j) for j, v in enumerate(bs))
                if i:
                    ids.append(i)
        ids += [rng.randrange(1, 2 ** 32) for _ in range(ctx.pick(300, 5000))]
        ids = sorted(set(ids))
        m.conn.execute("BEGIN")
        for i in ids:
            m.set_id(i, f"d{i}")
        m.conn.execute("COMMIT")
        by_space = {sp: [] for sp in SPACES}
        for i in ids:
            s_ = idm.IDSpace.from_id(i)
            by_space[(s_.color_bits, int(s_.use_3rd_diacritic))].append(i)
        qsubs = boundary_subspaces(rng, ctx.pick(0, 1800))
        if ctx.quick():
            qsubs = qsubs[:: 2] + [(0, 256), (255, 256), (0, 2)]
        plan = [(sp, s) for sp in SPACES for s in qsubs]
        reqs = []
        for sp, s in plan:
            l = ",".join(map(str, by_space[sp])) or "-"
            reqs.append(f"c10.filter_many {sp_args(sp)} {s[0]} {s[1]} {l}")
            reqs.append(f"c10.spec_in_sub_many {sp_args(sp)} {s[0]} {s[1]} {l}")
        reps = model.batch(reqs)
        spec_by = {}
        for j, (sp, s) in enumerate(plan):
            table = by_space[sp]
            cnt = m.count(S[sp], SUB[s])
            got = sorted(x.id for x in m.get_all(S[sp], SUB[s]))
            mf = sorted(i for i, bit in zip(table, reps[2 * j]) if bit == "1") if table else []
            spec = sorted(i for i, bit in zip(table, reps[2 * j + 1]) if bit == "1") if table else []
            case = {"kind": "sqlfilter", "sp": sp, "sub": s, "table": len(table)}
            cov.add(case, klass=f"sqlite-filter/{SP_NAME[sp]}", sample_every=997)
            if got != mf or cnt != len(mf):
                brk(ctx, "IDManager.get_all/count (sqlite range filter) differ from Model.sql_filter", case, {"count": cnt, "ids": got[:5]}, {"count": len(mf), "ids": mf[:5]})
            if got != spec or cnt != len(spec):
                diff = sorted(set(got) ^ set(spec))
                viol(ctx, "sql-range-filter", f"IDManager.get_all/count({SP_NAME[sp]}, {s[0]}:{s[1]}) select {cnt}/{len(got)} rows, the byte layout has {len(spec)} members in the table"
                     + (f"; e.g. id {diff[0]:#x}" if diff else ""), dict(case, ids=table if len(table) < 400 else diff[:50]), space=SP_NAME[sp])
            spec_by.setdefault(s, set()).update(spec)
        # the listing / count over ALL spaces (id_space=None) with a subspace: the union of the per-space members
        for s in list(spec_by)[:: max(1, len(spec_by) // ctx.pick(60, 400))]:
            want = sorted(spec_by[s])
            got = sorted(x.id for x in m.get_all(None, SUB[s]))
            cnt = m.count(None, SUB[s])
            cov.add({"kind": "sqlfilter-all-spaces", "sub": s}, klass="sqlite-filter/all-spaces", sample_every=997)
            if got != want or cnt != len(want):
                diff = sorted(set(got) ^ set(want))
                viol(ctx, "sql-range-filter", f"IDManager.get_all/count(None, {s[0]}:{s[1]}) (all spaces) select {len(got)}/{cnt} rows, the byte layouts have {len(want)} members in the tables"
                     + (f"; e.g. id {diff[0]:#x}" if diff else ""), {"kind": "sqlfilter-all", "sub": s, "ids": diff[:50]}, space="all")
                break
    finally:
        m.close()


# ---------------------------------------------------------------- replay of a stored violation
def replay(ctx, model, rec):
    if rec.get("case", {}).get("kind") == "reconfigure":
        import c08_cli
        n0 = len(ctx.violations)
        c0 = rec["case"]
        c08_cli.reconfigure_equivalence(ctx, common.Coverage("replay"), 60, must_change=sorted(k for k in c0["after"] if c0["after"][k] != c0["before"].get(k))[:1] or None)
        mine = ctx.violations[n0:]
        del ctx.violations[n0:]
        return {"violates": bool(mine), "violations": [v["what"] for v in mine][:3]}
    case = rec["case"]
    kind = case.get("kind")
    tup = common.import_impl()
    idm = tup.id_manager
    sp = tuple(case["sp"]) if "sp" in case else None
    s = tuple(case["sub"]) if "sub" in case else None
    S = idm.IDSpace(sp[0], bool(sp[1])) if sp else None
    sub = idm.IDSubspace(*s) if s else None
    if kind == "size":
        h = spec_histogram(sp)
        want = sum(h[s[0]:s[1]])
        got = S.subspace_size(sub)
        return {"violates": got != want, "subspace_size": got, "members_by_layout": want}
    if kind == "classify":
        i = case["id"]
        r = exc_name(idm.IDSpace.from_id, i)
        owners = [o for o in SPACES if spec_in_space_py(o, i)]
        ok = (r[0] == "ok" and len(owners) == 1 and (r[1].color_bits, int(r[1].use_3rd_diacritic)) == owners[0]) if 0 < i < 2 ** 32 else r[0] != "ok"
        if ok and r[0] == "ok":
            ok = idm.IDSpace.get_subspace_byte(i) == spec_byte(SUB_BYTE_INDEX[owners[0]], i)
        return {"violates": not ok, "from_id": str(r[1]), "layout": [SP_NAME[o] for o in owners]}
    if kind == "member":
        i = case["id"]
        a = exc_name(S.contains, i)
        b = exc_name(S.contains_and_in_subspace, i, sub)
        rep = model.one(f"c10.member {sp_args(sp)} {s[0]} {s[1]} {i}").split()
        mb, me = S.subspace_masked_range(sub)
        f = int(mb <= (i & S.subspace_byte_mask()) <= me - 1)
        bad = (a[0] != "ok" or str(int(a[1])) != rep[3]) or (b[0] != "ok" or str(int(b[1])) != rep[4]) or (rep[3] == "1" and str(f) != rep[4])
        return {"violates": bad, "contains": a[1], "contains_and_in_subspace": b[1], "range_filter": f, "spec_in_space": rep[3], "spec_in_sub": rep[4]}
    if kind in ("all_ids", "all_ids_window"):
        if kind == "all_ids":
            l = list(S.all_ids(sub))
        else:
            l = list(itertools.islice(S.all_ids(sub), case["start"], case["start"] + case["count"]))
        orc = model.one(f"c10.spec_in_sub_many {sp_args(sp)} {s[0]} {s[1]} {','.join(map(str, l)) if l else '-'}")
        bad = [x for x, o in zip(l, orc) if o != "1"] if l else []
        h = spec_histogram(sp)
        incomplete = kind == "all_ids" and len(l) != sum(h[s[0]:s[1]])
        size_bad = kind == "all_ids" and S.subspace_size(sub) != len(l)
        return {"violates": bool(bad) or len(set(l)) != len(l) or incomplete or size_bad, "non_members": bad[:5], "yielded": len(l), "distinct": len(set(l)),
                "members_by_layout": sum(h[s[0]:s[1]]), "subspace_size": S.subspace_size(sub)}
    if kind == "gen":
        saved = idm.secrets
        draws = list(case["draws"])

        class Feed:
            def randbelow(self, n):
                return draws.pop(0)
        idm.secrets = Feed()
        try:
            r = exc_name(S.gen_random_id, sub)
        finally:
            idm.secrets = saved
        if r[0] != "ok":
            return {"violates": True, "raised": r[1]}
        o = model.one(f"c10.spec_in_sub_many {sp_args(sp)} {s[0]} {s[1]} {r[1]}")
        return {"violates": o != "1", "id": r[1]}
    if kind == "gen_complete":
        saved = idm.secrets
        members = set(S.all_ids(sub))
        got = set()
        idm.secrets = DrawAll()
        try:
            for d in range(len(members)):
                idm.secrets.next = d
                got.add(S.gen_random_id(sub))
        finally:
            idm.secrets = saved
        return {"violates": got != members, "missing": sorted(members - got)[:5]}
    if kind == "split":
        k = case["k"]
        r = exc_name(sub.split, k)
        mx = s[1] - 1 if s[0] == 0 else s[1] - s[0]
        if 1 <= k <= mx:
            why = "raised " + r[1] if r[0] != "ok" else spec_split_ok(s[0], s[1], k, [(p.begin, p.end) for p in r[1]])
            return {"violates": bool(why), "why": why}
        return {"violates": r[0] == "ok", "result": str(r[1])[:200]}
    if kind == "ctor":
        b, e = case["b"], case["e"]
        r = exc_name(idm.IDSubspace, b, e)
        spec_ok = 0 <= b < e <= 256 and e != 1
        return {"violates": spec_ok != (r[0] == "ok")}
    if kind == "sqlfilter":
        db = os.path.join(ctx.work, "replay.db")
        m = idm.IDManager(db)
        try:
            ids = [i for i in case.get("ids", []) if spec_in_space_py(sp, i)]
            for i in ids:
                m.set_id(i, f"d{i}")
            got = sorted(x.id for x in m.get_all(S, sub))
            cnt = m.count(S, sub)
        finally:
            m.close()
        orc = model.one(f"c10.spec_in_sub_many {sp_args(sp)} {s[0]} {s[1]} {','.join(map(str, ids)) if ids else '-'}")
        spec = sorted(i for i, bit in zip(ids, orc) if bit == "1") if ids else []
        return {"violates": got != spec or cnt != len(spec), "selected": got[:10], "members": spec[:10], "count": cnt}
    if kind == "sqlfilter-all":
        db = os.path.join(ctx.work, "replay-all.db")
        m = idm.IDManager(db)
        try:
            ids = sorted(set(i for i in case.get("ids", []) if 0 < i < 2 ** 32))
            for i in ids:
                m.set_id(i, f"d{i}")
            got = sorted(x.id for x in m.get_all(None, sub))
            cnt = m.count(None, sub)
        finally:
            m.close()
        spec = []
        for i in ids:
            owner = [o for o in SPACES if spec_in_space_py(o, i)][0]
            if model.one(f"c10.spec_in_sub_many {sp_args(owner)} {s[0]} {s[1]} {i}") == "1":
                spec.append(i)
        return {"violates": got != spec or cnt != len(spec), "selected": got[:10], "members": spec[:10], "count": cnt}
    return {"violates": False, "note": f"re-run the check to replay cases of kind {kind}"}
