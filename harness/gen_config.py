"""Extractor plug-in for C17: TupimageConfig option table and the literals of the normalisation
code -> coq/Gen/ConfigGen.v.  Fail-closed: the shape of every function the configuration model
transcribes is pinned (string-list / tuple literals and integer bounds are blanked before the
comparison and emitted as Coq definitions instead, so that a changed literal reaches the proofs
while a changed control flow breaks the tie)."""
import ast
import copy
import decimal

from gen_tables import extractor, parse, find_class, find_func, find_assign, body_nodoc, \
    const_str, const_int, expect, coq_bytes, coq_list, HEADER, ExtractError


# ----------------------------------------------------------------------------- literal blanking
class _Blank(ast.NodeTransformer):
    """Replace [..]/(..) of string constants by __STRS, integer constants >= 2 by __INT; collect them."""

    def __init__(self):
        self.strs = []
        self.ints = []

    def _strs(self, node):
        if node.elts and all(isinstance(e, ast.Constant) and isinstance(e.value, str) for e in node.elts):
            self.strs.append([e.value for e in node.elts])
            return ast.Name(id="__STRS", ctx=ast.Load())
        return self.generic_visit(node)

    def visit_List(self, node):
        return self._strs(node)

    def visit_Tuple(self, node):
        return self._strs(node)

    def visit_Constant(self, node):
        if isinstance(node.value, int) and not isinstance(node.value, bool) and node.value >= 2:
            self.ints.append(node.value)
            return ast.Name(id="__INT", ctx=ast.Load())
        return node


def blank(stmts):
    b = _Blank()
    out = [b.visit(copy.deepcopy(s)) for s in stmts]
    return "\n".join(ast.dump(s) for s in out), b.strs, b.ints


def pin(fn, expected_src, what):
    """The body of fn (docstring dropped) must equal expected_src up to blanked literals.
    Returns (string lists, ints) found in the *current* source, in source order."""
    now, strs, ints = blank(body_nodoc(fn))
    exp_fn = ast.parse(expected_src).body[0]
    was, estrs, eints = blank(body_nodoc(exp_fn))
    if now != was:
        cur = "\n".join(ast.unparse(s) for s in body_nodoc(fn))
        raise ExtractError(f"{what}: code shape changed; now:\n{cur[:1500]}")
    expect(len(strs) == len(estrs) and len(ints) == len(eints), f"{what}: number of literals changed")
    # also pin the signature's argument names
    expect([a.arg for a in fn.args.args] == [a.arg for a in exp_fn.args.args], f"{what}: arguments changed")
    return strs, ints


# ----------------------------------------------------------------------------- expected shapes
VALIDATE = '''
def validate_and_normalize(name, value, provenance=None):
    if name not in TupimageConfig.__annotations__:
        raise KeyError(f"Unknown config key: {name}")
    field_type = TupimageConfig.__annotations__[name]
    provenance = f"({provenance})" if provenance else "(set in code)"
    try:
        if isinstance(value, str) and value != "auto":
            if field_type is IDSubspace:
                value = IDSubspace.from_string(value)
            if field_type is IDSpace:
                value = IDSpace.from_string(value)
            if name == "cell_size" or name == "default_cell_size":
                value = tupimage.utils.validate_size(value)
            if name == "id_database_dir" and value == "":
                value = platformdirs.user_state_dir("tupimage")
            if name == "upload_method":
                value = TransmissionMedium.from_string(value)
            if (
                name in ["max_rows", "max_cols", "num_tmux_layers"]
                or field_type is int
            ):
                value = int(value)
            if name in ["scale", "global_scale"] or field_type is float:
                value = float(value)
            if field_type is bool:
                value = TupimageConfig._parse_bool(value)
            if name == "supported_formats":
                value = re.split(r"[, ]+", value)
            if name == "background":
                try:
                    value = int(value)
                except ValueError:
                    pass
        elif isinstance(value, int) and not isinstance(value, bool):
            if field_type is float:
                value = float(value)
            if field_type is bool and value in (0, 1):
                value = bool(value)
    except (ValueError, OverflowError, argparse.ArgumentTypeError) as e:
        raise ValueError(
            f"Option '{name}' has type {field_type}, but the value"
            f" '{value}' is invalid: {e} {provenance}"
        )
    if not TupimageConfig._verify_type(value, field_type):
        raise ValueError(
            f"Option '{name}' has type {field_type}, but got"
            f" '{value}' of type {type(value)} {provenance}"
        )
    if isinstance(value, int):
        if name == "max_cols" and value <= 0:
            raise ValueError(f"max_cols must be positive: {value} {provenance}")
        if name == "max_rows" and not (0 < value <= 256):
            raise ValueError(
                "max_rows must be positive and not greater than 256:"
                f" {value} {provenance}"
            )
    if isinstance(value, tuple) and (value[0] < 1 or value[1] < 1):
        raise ValueError(f"{name} must be positive: {value} {provenance}")
    return value
'''

PARSE_BOOL = '''
def _parse_bool(value):
    lowered = value.strip().lower()
    if lowered in ("true", "yes", "on"):
        return True
    if lowered in ("false", "no", "off"):
        return False
    number = int(value)
    if number in (0, 1):
        return bool(number)
    raise ValueError("expected true/false, 1/0, yes/no or on/off")
'''

VERIFY_TYPE = '''
def _verify_type(value, type):
    origin = typing.get_origin(type)
    args = typing.get_args(type)
    if origin is Optional:
        if value is None:
            return True
        return TupimageConfig._verify_type(value, args[0])
    elif origin is Union:
        for arg in args:
            if TupimageConfig._verify_type(value, arg):
                return True
        return False
    elif origin is tuple:
        if not isinstance(value, tuple):
            return False
        if len(value) != len(args):
            return False
        for i in range(len(value)):
            if not TupimageConfig._verify_type(value[i], args[i]):
                return False
        return True
    elif origin is list:
        if not isinstance(value, list):
            return False
        for subval in value:
            if not TupimageConfig._verify_type(subval, args[0]):
                return False
        return True
    elif origin is Literal:
        return value in args
    else:
        if isinstance(value, bool) and type is int:
            return False
        return isinstance(value, type)
'''

POST_INIT = '''
def __post_init__(self):
    self._provenance = {}
    self._current_provenance = None
'''

GET_PROVENANCE = '''
def get_provenance(self, name):
    provenance = self._provenance.get(name)
    if provenance is not None:
        return provenance
    field_obj = TupimageConfig.__dataclass_fields__[name]
    if getattr(self, name) == field_obj.default:
        return "default"
    return "set in code"
'''

SETATTR = '''
def __setattr__(self, name, value):
    super().__setattr__(name, value)
    if name[0] != "_":
        if hasattr(self, "_current_provenance"):
            self._provenance[name] = self._current_provenance
'''

FROM_TOML_FILE = '''
def override_from_toml_file(self, filename, provenance=None):
    if provenance is None:
        provenance = f"set from file {os.path.abspath(filename)}"
    with open(filename, "r") as f:
        self.override_from_toml_string(f.read(), provenance=provenance)
'''

FROM_TOML_STRING = '''
def override_from_toml_string(self, string, provenance=None):
    if provenance is None:
        provenance = "set from toml string"
    self._current_provenance = provenance
    config = toml.loads(string)
    unknown_keys = set()
    for key, value in config.items():
        if key not in TupimageConfig.__annotations__:
            unknown_keys.add(key)
            continue
        normalized = TupimageConfig.validate_and_normalize(key, value, provenance)
        setattr(self, key, normalized)
    self._current_provenance = None
    if unknown_keys and not self.ignore_unknown_attributes:
        raise KeyError(f"Unknown config keys: {', '.join(unknown_keys)}")
'''

FROM_DICT = '''
def override_from_dict(self, config, provenance=None):
    if provenance is None:
        provenance = config.get("provenance", "set from dict")
    self._current_provenance = provenance
    for key, value in config.items():
        if key == "provenance":
            continue
        if value is not None:
            normalized = TupimageConfig.validate_and_normalize(
                key, value, provenance
            )
            setattr(self, key, normalized)
    self._current_provenance = None
'''

FROM_ENV = '''
def override_from_env(self):
    for name in TupimageConfig.__annotations__:
        env_var_name = f"TUPIMAGE_{name.upper()}"
        env_value = os.environ.get(env_var_name)
        if env_value is not None:
            self._current_provenance = f"set via {env_var_name}"
            normalized = TupimageConfig.validate_and_normalize(
                name, env_value, self._current_provenance
            )
            setattr(self, name, normalized)
    self._current_provenance = None
'''

# to_toml_string: the part that builds the dictionary and the key = value lines
TO_TOML_HEAD = '''
def to_toml_string(self, with_provenance=False, skip_default=False):
    dic = dataclasses.asdict(self)
    if isinstance(self.id_subspace, IDSubspace):
        dic["id_subspace"] = str(self.id_subspace)
    if isinstance(self.id_space, IDSpace):
        dic["id_space"] = str(self.id_space)
    if isinstance(self.cell_size, tuple):
        dic["cell_size"] = f"{self.cell_size[0]}x{self.cell_size[1]}"
    if isinstance(self.default_cell_size, tuple):
        dic["default_cell_size"] = (
            f"{self.default_cell_size[0]}x{self.default_cell_size[1]}"
        )
    if isinstance(self.upload_method, TransmissionMedium):
        dic["upload_method"] = self.upload_method.value
    kv_lines = []
    provenances = []
    for name, value in dic.items():
        provenance = self.get_provenance(name)
        if skip_default and provenance == "default":
            continue
        kv_lines.append(toml.dumps({name: value}).strip())
        provenances.append(provenance)
    if not with_provenance:
        return "\\n".join(kv_lines) + "\\n"
'''

INIT_LAYERING = '''
def __init__(self):
    self._config_file: str = "DEFAULT"
    if config is None:
        if os.environ.get("TUPIMAGE_CONFIG") is not None:
            config = os.environ["TUPIMAGE_CONFIG"]
        else:
            config_file = platformdirs.user_config_dir("tupimage") + "/config.toml"
            if os.path.exists(config_file):
                config = config_file
            else:
                config = TupimageConfig()
    if isinstance(config, str):
        self._config_file: str = config
        if config == "DEFAULT" or config == "":
            config = TupimageConfig()
        else:
            config = TupimageConfig()
            config.override_from_toml_file(self._config_file)
    assert config is not None
    config.override_from_env()
    config.override_from_dict(kwargs)
    config.override_from_dict(config_overrides)
    self.final_cursor_pos: FinalCursorPos = final_cursor_pos
'''

INIT_EXPAND = '''
if config.num_tmux_layers == "auto":
    config._current_provenance = (
        f"expanded from 'auto' ({config.get_provenance('num_tmux_layers')})"
    )
    term = os.environ.get("TERM", "")
    if os.environ.get("TMUX") and ("screen" in term or "tmux" in term):
        config.num_tmux_layers = 1
    else:
        config.num_tmux_layers = 0
    config._current_provenance = None
'''

VALIDATE_SIZE = '''
def validate_size(value):
    split_value = value.split("x")
    if len(split_value) != 2:
        raise argparse.ArgumentTypeError(f"Size must be specified as WxH: {value}")
    try:
        width = int(split_value[0])
        height = int(split_value[1])
    except ValueError:
        raise argparse.ArgumentTypeError(f"Size must be integer: {value}")
    if width < 1 or height < 1:
        raise argparse.ArgumentTypeError(f"Size must be positive: {value}")
    return (width, height)
'''

SUB_POST_INIT = '''
def __post_init__(self):
    if not (0 <= self.begin < self.end <= 256):
        raise ValueError("Invariant violation: 0 <= begin < end <= 256")
    if self.end == 1:
        raise ValueError("A subspace must contain at least one non-zero id")
'''

SUB_STR = '''
def __str__(self):
    return f"{self.begin}:{self.end}"
'''

SUB_FROM_STRING = '''
def from_string(s):
    if not s:
        return IDSubspace()
    try:
        begin, end = s.split(":")
        begin = int(begin)
        end = int(end)
    except ValueError:
        raise ValueError(
            f"Invalid format for IDSubspace: '{s}'. Expected format 'begin:end' with integers."
        )
    return IDSubspace(begin, end)
'''

SPACE_POST_INIT = '''
def __post_init__(self):
    if self.color_bits == 0 and not self.use_3rd_diacritic:
        raise ValueError(
            "Cannot use 0 color bits and not use the 3rd diacritic at the"
            " same time, because there would be no non-zero ids"
        )
    if self.color_bits not in [0, 8, 24]:
        raise ValueError(
            f"Invalid number of color bits: {self.color_bits}, must be 0, 8"
            " or 24"
        )
'''

SPACE_STR = '''
def __str__(self):
    bits = self.num_nonzero_bits()
    if bits == 8 and self.use_3rd_diacritic:
        return "8bit_diacritic"
    return f"{bits}bit"
'''

SPACE_BITS = '''
def num_nonzero_bits(self):
    return (8 if self.use_3rd_diacritic else 0) + self.color_bits
'''


# ----------------------------------------------------------------------------- Coq terms
def coq_z(i):
    return f"({i})%Z" if i < 0 else f"{i}%Z"


def coq_str(s):
    return coq_bytes(s.encode("utf-8"))


def float_term(x):
    d = decimal.Decimal(repr(x))
    expect(d.is_finite(), "non-finite float default")
    sign, digits, exp = d.as_tuple()
    m = int("".join(map(str, digits)))
    while m != 0 and m % 10 == 0:
        m //= 10
        exp += 1
    if m == 0:
        exp = 0
    if sign:
        m = -m
    return f"VFloat {coq_z(m)} {coq_z(exp)}"


class Types:
    def __init__(self, tt, ph):
        self.tt = tt
        self.ph = ph

    def of(self, node, depth=0):
        expect(depth < 6, "type alias nesting too deep")
        if isinstance(node, ast.Constant) and node.value is None:
            return "TNone"
        if isinstance(node, ast.Name):
            simple = {"int": "TInt", "float": "TFloat", "bool": "TBool", "str": "TStr", "IDSpace": "TSpace",
                      "IDSubspace": "TSub", "TransmissionMedium": "TMedium", "bytes": "TOpaque",
                      "CellFormatting": "TOpaque", "RowFormatting": "TOpaque", "None": "TNone"}
            if node.id in simple:
                return simple[node.id]
            if node.id == "BackgroundLike":
                return self.of(find_assign(self.tt, "BackgroundLike"), depth + 1)
            raise ExtractError(f"unknown type name {node.id}")
        if isinstance(node, ast.Attribute) and ast.unparse(node) == "tupimage.AdditionalFormatting":
            return self.of(find_assign(self.ph, "AdditionalFormatting"), depth + 1)
        if isinstance(node, ast.Subscript) and isinstance(node.value, ast.Name):
            head = node.value.id
            sl = node.slice
            elts = sl.elts if isinstance(sl, ast.Tuple) else [sl]
            if head == "Union":
                parts = []
                for e in elts:
                    t = self.of(e, depth + 1)
                    sub = self._union_parts(t)
                    for p in sub:
                        if p not in parts:  # typing flattens and de-duplicates
                            parts.append(p)
                return "TUnion [" + "; ".join(parts) + "]"
            if head == "Optional":
                expect(len(elts) == 1, "Optional[...] arity")
                return "TUnion [" + self.of(elts[0], depth + 1) + "; TNone]"
            if head == "Tuple":
                return "TTuple [" + "; ".join(self.of(e, depth + 1) for e in elts) + "]"
            if head == "List":
                expect(len(elts) == 1, "List[...] arity")
                return "TList (" + self.of(elts[0], depth + 1) + ")"
            if head == "Literal":
                expect(len(elts) == 1, "Literal with several values is not modelled")
                return "TLit " + coq_str(const_str(elts[0], "Literal value"))
        raise ExtractError(f"unrecognised annotation {ast.unparse(node)}")

    @staticmethod
    def _union_parts(t):
        if not t.startswith("TUnion ["):
            return [t if " " not in t or t.startswith("(") else f"({t})"]
        # split the top level of "TUnion [a; b; c]"
        inner = t[len("TUnion ["):-1]
        parts, depth, cur = [], 0, ""
        for ch in inner:
            if ch in "[(":
                depth += 1
            if ch in "])":
                depth -= 1
            if ch == ";" and depth == 0:
                parts.append(cur.strip())
                cur = ""
            else:
                cur += ch
        if cur.strip():
            parts.append(cur.strip())
        return parts


def dataclass_defaults(cls, names):
    vals = []
    for n in names:
        vals.append(find_assign(cls, n))
    return vals


def int_expr(node, what):
    """integer literal or product of integer literals"""
    if isinstance(node, ast.BinOp) and isinstance(node.op, ast.Mult):
        return int_expr(node.left, what) * int_expr(node.right, what)
    return const_int(node, what)


@extractor
def gen_config(repo, out):
    tt = parse(repo, "tupimage/tupimage_terminal.py")
    idm = parse(repo, "tupimage/id_manager.py")
    gc = parse(repo, "tupimage/graphics_command.py")
    ut = parse(repo, "tupimage/utils.py")
    ph = parse(repo, "tupimage/placeholder.py")
    cfg = find_class(tt, "TupimageConfig")
    types = Types(tt, ph)

    # ---- defaults of the two dataclasses used as option values
    sp = find_class(idm, "IDSpace")
    sub = find_class(idm, "IDSubspace")
    sp_bits = const_int(find_assign(sp, "color_bits"), "IDSpace.color_bits default")
    sp_d3 = find_assign(sp, "use_3rd_diacritic")
    expect(isinstance(sp_d3, ast.Constant) and isinstance(sp_d3.value, bool), "IDSpace.use_3rd_diacritic default")
    sub_b = const_int(find_assign(sub, "begin"), "IDSubspace.begin default")
    sub_e = const_int(find_assign(sub, "end"), "IDSubspace.end default")
    placeholder_char = const_str(find_assign(ph, "PLACEHOLDER_CHAR"), "PLACEHOLDER_CHAR")

    # ---- option table
    rows = []
    seen_fields = False
    for n in cfg.body:
        if isinstance(n, ast.AnnAssign):
            expect(isinstance(n.target, ast.Name) and n.value is not None, "TupimageConfig field without default")
            name = n.target.id
            t = types.of(n.annotation)
            d = n.value
            src = ast.unparse(d)
            if isinstance(d, ast.Constant) and isinstance(d.value, bool):
                dv = f"DVal (VBool {'true' if d.value else 'false'})"
            elif isinstance(d, ast.Constant) and isinstance(d.value, float):
                dv = f"DVal ({float_term(d.value)})"
            elif isinstance(d, ast.Constant) and isinstance(d.value, str):
                dv = f"DVal (VStr {coq_str(d.value)})"
            elif src == "IDSpace()":
                dv = f"DVal (VSpace {coq_z(sp_bits)} {'true' if sp_d3.value else 'false'})"
            elif src == "IDSubspace()":
                dv = f"DVal (VSub {coq_z(sub_b)} {coq_z(sub_e)})"
            elif src == "platformdirs.user_state_dir('tupimage')":
                dv = "DStateDir"
            elif src == "select.PIPE_BUF":
                dv = "DPipeBuf"
            elif src == "tupimage.PLACEHOLDER_CHAR":
                dv = f"DVal (VStr {coq_str(placeholder_char)})"
            elif isinstance(d, ast.Tuple):
                dv = "DVal (VTuple [" + "; ".join(f"VInt {coq_z(const_int(e, name))}" for e in d.elts) + "])"
            else:
                dv = f"DVal (VInt {coq_z(int_expr(d, name + ' default'))})"
            rows.append((name, t, dv))
            seen_fields = True
        else:
            expect(isinstance(n, ast.FunctionDef) or not seen_fields or isinstance(n, ast.Expr), f"unexpected statement in TupimageConfig: {ast.unparse(n)[:60]}")
    expect(len(rows) >= 20, "too few options found")
    expect(len({r[0] for r in rows}) == len(rows), "duplicate option names")

    # ---- pinned code shapes, literals
    strs, ints = pin(find_func(cfg, "validate_and_normalize"), VALIDATE, "validate_and_normalize")
    expect(len(strs) == 2 and len(ints) == 1, "validate_and_normalize: literals")
    int_names, float_names = strs
    max_rows_limit = ints[0]
    bstrs, _ = pin(find_func(cfg, "_parse_bool"), PARSE_BOOL, "_parse_bool")
    expect(len(bstrs) == 2, "_parse_bool: word lists")
    pin(find_func(cfg, "_verify_type"), VERIFY_TYPE, "_verify_type")
    pin(find_func(cfg, "__post_init__"), POST_INIT, "TupimageConfig.__post_init__")
    pin(find_func(cfg, "get_provenance"), GET_PROVENANCE, "get_provenance")
    pin(find_func(cfg, "__setattr__"), SETATTR, "__setattr__")
    pin(find_func(cfg, "override_from_toml_file"), FROM_TOML_FILE, "override_from_toml_file")
    pin(find_func(cfg, "override_from_toml_string"), FROM_TOML_STRING, "override_from_toml_string")
    pin(find_func(cfg, "override_from_dict"), FROM_DICT, "override_from_dict")
    pin(find_func(cfg, "override_from_env"), FROM_ENV, "override_from_env")
    # to_toml_string: everything up to the plain (no provenance) return
    tts = find_func(cfg, "to_toml_string")
    exp = ast.parse(TO_TOML_HEAD).body[0]
    k = len(body_nodoc(exp))
    now, _, _ = blank(body_nodoc(tts)[:k])
    was, _, _ = blank(body_nodoc(exp))
    expect(now == was, "to_toml_string: dictionary construction changed")
    # constructor layering: the first statements of TupimageTerminal.__init__, and the 'auto' expansion
    init = find_func(find_class(tt, "TupimageTerminal"), "__init__")
    exp = ast.parse(INIT_LAYERING).body[0]
    k = len(body_nodoc(exp))
    now, _, _ = blank(body_nodoc(init)[:k])
    was, _, _ = blank(body_nodoc(exp))
    expect(now == was, "TupimageTerminal.__init__: layer application order changed")
    kw = [a.arg for a in init.args.kwonlyargs]
    expect("config" in kw and "config_overrides" in kw and init.args.kwarg is not None and init.args.kwarg.arg == "kwargs",
           "TupimageTerminal.__init__: config/config_overrides/**kwargs parameters")
    nxt = body_nodoc(init)[k]
    now, _, _ = blank([nxt])
    was, _, _ = blank(ast.parse(INIT_EXPAND).body)
    expect(now == was, "TupimageTerminal.__init__: num_tmux_layers 'auto' expansion changed")

    pin(find_func(ut, "validate_size"), VALIDATE_SIZE, "validate_size")
    _, sub_ints = pin(find_func(sub, "__post_init__"), SUB_POST_INIT, "IDSubspace.__post_init__")
    expect(len(sub_ints) == 1, "IDSubspace.__post_init__: bound")
    pin(find_func(sub, "__str__"), SUB_STR, "IDSubspace.__str__")
    pin(find_func(sub, "from_string"), SUB_FROM_STRING, "IDSubspace.from_string")
    # IDSpace.__post_init__ has an int list [0, 8, 24]: ints >= 2 are blanked, 0 stays pinned
    _, sp_ints = pin(find_func(sp, "__post_init__"), SPACE_POST_INIT, "IDSpace.__post_init__")
    expect(len(sp_ints) == 2, "IDSpace.__post_init__: colour-bit list")
    _, str_ints = pin(find_func(sp, "__str__"), SPACE_STR, "IDSpace.__str__")
    expect(str_ints == [8], "IDSpace.__str__: 8bit_diacritic test")
    _, bits_ints = pin(find_func(sp, "num_nonzero_bits"), SPACE_BITS, "IDSpace.num_nonzero_bits")
    expect(bits_ints == [8], "IDSpace.num_nonzero_bits: 8 bits for the third diacritic")

    # IDSpace.from_string: if s in (names): return IDSpace(bits, d3) ... raise
    fs = body_nodoc(find_func(sp, "from_string"))
    space_names = []
    for st in fs[:-1]:
        expect(isinstance(st, ast.If) and not st.orelse and len(st.body) == 1 and isinstance(st.body[0], ast.Return), "IDSpace.from_string: if/return chain")
        t = st.test
        expect(isinstance(t, ast.Compare) and len(t.ops) == 1 and isinstance(t.ops[0], ast.In) and ast.unparse(t.left) == "s"
               and isinstance(t.comparators[0], ast.Tuple), "IDSpace.from_string: `s in (...)`")
        names = [const_str(e, "IDSpace name") for e in t.comparators[0].elts]
        call = st.body[0].value
        expect(isinstance(call, ast.Call) and ast.unparse(call.func) == "IDSpace" and len(call.args) == 2 and not call.keywords, "IDSpace.from_string: IDSpace(bits, d3)")
        bits = const_int(call.args[0], "IDSpace bits")
        d3 = call.args[1]
        expect(isinstance(d3, ast.Constant) and isinstance(d3.value, bool), "IDSpace d3")
        space_names.append((names, bits, d3.value))
    expect(isinstance(fs[-1], ast.Raise) and ast.unparse(fs[-1].exc).startswith("ValueError("), "IDSpace.from_string: final raise ValueError")

    # TransmissionMedium: members and from_string chain
    tm = find_class(gc, "TransmissionMedium")
    members = {}
    for n in tm.body:
        if isinstance(n, ast.Assign):
            members[n.targets[0].id] = const_str(n.value, "TransmissionMedium member value")
    fs = body_nodoc(find_func(tm, "from_string"))
    expect(len(fs) == 1 and isinstance(fs[0], ast.If), "TransmissionMedium.from_string: if chain")
    medium_names = []
    node = fs[0]
    while True:
        t = node.test
        comps = t.values if isinstance(t, ast.BoolOp) and isinstance(t.op, ast.Or) else [t]
        names = []
        for c in comps:
            expect(isinstance(c, ast.Compare) and len(c.ops) == 1 and isinstance(c.ops[0], ast.Eq) and ast.unparse(c.left) == "s", "TransmissionMedium.from_string: s == '...'")
            names.append(const_str(c.comparators[0], "medium name"))
        expect(len(node.body) == 1 and isinstance(node.body[0], ast.Return), "TransmissionMedium.from_string: return")
        ret = ast.unparse(node.body[0].value)
        expect(ret.startswith("TransmissionMedium.") and ret.split(".")[1] in members, "TransmissionMedium.from_string: member")
        medium_names.append((names, members[ret.split(".")[1]]))
        expect(len(node.orelse) == 1, "TransmissionMedium.from_string: else")
        if isinstance(node.orelse[0], ast.If):
            node = node.orelse[0]
        else:
            expect(isinstance(node.orelse[0], ast.Raise) and ast.unparse(node.orelse[0].exc).startswith("ValueError("), "TransmissionMedium.from_string: final raise")
            break

    t = HEADER
    t += "From Tup Require Import Lib.CfgTypes.\n\n"
    t += "(* TupimageConfig fields in declaration order: name, annotated type, default *)\n"
    t += "Definition options : list (list N * ty * defv) := [\n"
    t += ";\n".join(f"  ({coq_str(n)}, {ty}, {dv})   (* {n} *)" if False else f"  (* {n} *) ({coq_str(n)}, {ty}, {dv})" for n, ty, dv in rows)
    t += "\n].\n\n"
    t += "(* validate_and_normalize: names converted with int() / float() besides the options annotated int / float *)\n"
    t += f"Definition int_conv_names : list (list N) := {coq_list(coq_str(x) for x in int_names)}.\n"
    t += f"Definition float_conv_names : list (list N) := {coq_list(coq_str(x) for x in float_names)}.\n"
    t += f"Definition max_rows_limit : Z := {coq_z(max_rows_limit)}.\n"
    t += "(* _parse_bool *)\n"
    t += f"Definition bool_true_words : list (list N) := {coq_list(coq_str(x) for x in bstrs[0])}.\n"
    t += f"Definition bool_false_words : list (list N) := {coq_list(coq_str(x) for x in bstrs[1])}.\n"
    t += "(* IDSpace.from_string: accepted names -> IDSpace(color_bits, use_3rd_diacritic); legal colour bits besides 0 *)\n"
    t += "Definition space_names : list (list (list N) * (Z * bool)) := [\n"
    t += ";\n".join(f"  ({coq_list(coq_str(x) for x in names)}, ({coq_z(bits)}, {'true' if d3 else 'false'}))" for names, bits, d3 in space_names)
    t += "\n].\n"
    t += f"Definition legal_color_bits : list Z := {coq_list(['0%Z'] + [coq_z(i) for i in sp_ints])}.\n"
    t += f"Definition subspace_limit : Z := {coq_z(sub_ints[0])}.\n"
    t += f"Definition subspace_default : Z * Z := ({coq_z(sub_b)}, {coq_z(sub_e)}).\n"
    t += f"Definition third_diacritic_bits : Z := {coq_z(bits_ints[0])}.\n"
    t += "(* TransmissionMedium.from_string: accepted names -> .value of the member *)\n"
    t += "Definition medium_names : list (list (list N) * list N) := [\n"
    t += ";\n".join(f"  ({coq_list(coq_str(x) for x in names)}, {coq_str(v)})" for names, v in medium_names)
    t += "\n].\n"
    t += f"Definition medium_values : list (list N) := {coq_list(coq_str(v) for v in members.values())}.\n"
    out.add("ConfigGen.v", t)
