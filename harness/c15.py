"""C15 — computed cell size stays within limits and keeps aspect ratio within one cell.

Correspondence (three-way, every case):
  * the real TupimageTerminal.get_optimal_cols_and_rows / get_max_cols_and_rows / get_cell_size (and, for a
    fraction of the cases, build_image_instance on a PIL image, and upload() with the c=/r= keys of the transmit
    command it writes) of one TupimageTerminal constructed in a pty
    sandbox whose window size (TIOCSWINSZ: lines, cols, xpixel, ypixel) is reset for every case;
  * the binary64 instance of Model/CellSize.v (Model/CellSizeFloat.v), evaluated by coqc (vm_compute) on
    generated shards of <= 500 cases with the floats written bit-exactly (hexadecimal literals)
    -> must be EQUAL to the implementation (a difference is a broken correspondence);
  * the exact-rational instance, extracted to OCaml (the one clauses 3-4 are proved for), fed with the decimal
    reading of the scale factors -> agreement with the implementation is COUNTED (float rounding is the
    unproved residue of this property), a disagreement is only accepted if the Spec oracle still passes.
Spec oracle (search): clauses 1-4 of the statement computed with fractions.Fraction, an independent
transcription of coq/Spec/SizingSpec.v, on the implementation's answers, every case; the extracted
Spec booleans (no_unused_row_or_colb, smallest_containing_boxb) are evaluated as well and must agree with it.
"""
import concurrent.futures
import math
import os
import re
import subprocess
from fractions import Fraction

import common

GEN_DEPS = ("gen_cellsize",)
EXTRA_PROPS = ("C15float",)
ASSUMPTIONS = [
    "a terminal fits an image into its cell box by the largest scale factor that keeps the aspect ratio (coq/Spec/SizingSpec.v is_fit)",
    "image width/height are positive ints (Image.size), cell sizes positive ints, scale factors positive floats; local scale 0.0 / None means 'not given'",
    "clauses 3-4 are proved for exact rational arithmetic; for binary64 they are measured: each case is evaluated in both instances "
    "and against CPython, and the oracle accepts an answer that is exact for an image size within a relative 2^-40 of the given one",
    "CPython float *, /, int->float conversion and math.ceil are IEEE binary64 round-to-nearest-even = Coq PrimFloat (compared on every case)",
    "every int converted to float is < 2^53 in the generated cases (Model/CellSizeFloat.f_of_Z is exact there)",
    "all file descriptors of the terminal object are the same tty or no tty (one window size per call)",
]
TRUSTED = [
    "coqc evaluating Model/CellSizeFloat.v by vm_compute on generated case files (primitive floats/ints are listed by Print Assumptions as kernel primitives)",
    "pty sandbox: window size set with TIOCSWINSZ on the child's controlling tty; a stub `term` object only for get_size() returning None",
]

SIZES = [1, 2, 3, 7, 8, 9, 16, 17, 100, 333, 1000, 4000, 10000]
CELLS = [(1, 1), (8, 16), (9, 18), (10, 20), (7, 15)]
SCALES = [1.0, 2.0, 0.5, 0.1, 0.3, 1.5, 20.0]
TERMS = [(80, 24), (200, 60), (10, 5), (300, 300)]
LIMIT_VALUES = [1, 2, 3, 5, 24, 40, 80, 100, 255, 256]
EPS = Fraction(1, 2 ** 40)


# ------------------------------------------------------------------------------------------ generation
def resolved_guess(case):
    """harness-side guess of the limits, used only to aim explicit values at limit-1/limit/limit+1"""
    t = case["term"]
    if t["kind"] == "W":
        tc, tl = t["cols"], t["lines"]
    elif isinstance(t["size"], list):
        tc, tl = t["size"]
    else:
        tc, tl = 256, 256
    mc = case["amc"] if case["amc"] else (case["cmc"] if case["cmc"] is not None else tc)
    mr = case["amr"] if case["amr"] else (case["cmr"] if case["cmr"] is not None else tl)
    return max(1, mc), max(1, min(256, mr))


def gen_case(rng):
    c = {"w": rng.choice(SIZES), "h": rng.choice(SIZES)}
    if rng.random() < 0.25:  # square images make unused cells easy to see
        c["h"] = c["w"]
    # terminal and cell size
    c["dcell"] = list(rng.choice(CELLS)) if rng.random() < 0.3 else [8, 16]
    c["ccell"] = None
    if rng.random() < 0.92:
        tc, tl = rng.choice(TERMS)
        cw, ch = rng.choice(CELLS)
        mode = rng.random()
        if mode < 0.55:  # cell size from the tty, with a remainder to exercise the floor division
            xpx, ypx = tc * cw + rng.choice([0, tc - 1]), tl * ch + rng.choice([0, tl - 1])
        elif mode < 0.75:  # tty reports no pixel size -> default_cell_size
            xpx, ypx = 0, 0
        else:  # configured
            c["ccell"] = list(rng.choice(CELLS))
            xpx, ypx = rng.choice([0, tc * cw]), rng.choice([0, tl * ch])
        r = rng.random()
        if r < 0.008:
            xpx = tc - 1  # cell width 0
        elif r < 0.016:
            tl = 0  # no usable window size
        c["term"] = {"kind": "W", "lines": tl, "cols": tc, "xpx": xpx, "ypx": ypx}
    else:
        size = rng.choice([None, None, "E", list(rng.choice(TERMS))])
        c["term"] = {"kind": "S", "size": size, "cell": rng.choice([None, list(rng.choice(CELLS))])}
    # limits
    for k_call, k_cfg, cfg_ok in (("amc", "cmc", LIMIT_VALUES + [300, 1000]), ("amr", "cmr", LIMIT_VALUES)):
        m = rng.random()
        c[k_call] = c[k_cfg] = None
        if m < 0.45:
            pass
        elif m < 0.65:
            c[k_cfg] = rng.choice(cfg_ok)
        elif m < 0.9:
            c[k_call] = rng.choice(LIMIT_VALUES + [257, 300, 1000])
        else:
            c[k_cfg] = rng.choice(cfg_ok)
            c[k_call] = rng.choice(LIMIT_VALUES + [257, 300, 1000])
        if rng.random() < 0.02:
            c[k_call] = rng.choice([0, -1])
    mc, mr = resolved_guess(c)
    # explicit dimensions
    def pick(lim):
        return rng.choice([1, 2, lim - 1, lim, lim + 1, 300])
    m = rng.random()
    c["cols"] = c["rows"] = None
    if m < 0.34:
        pass
    elif m < 0.62:
        c["cols"] = pick(mc)
    elif m < 0.90:
        c["rows"] = pick(mr)
    elif m < 0.96:
        c["cols"], c["rows"] = rng.choice([pick(mc), 0, -2, 5000]), rng.choice([pick(mr), 0, -3, 700])
    else:
        if rng.random() < 0.5:
            c["cols"] = rng.choice([0, -1])
        else:
            c["rows"] = rng.choice([0, -1])
    # scales
    c["gscale"] = rng.choice(SCALES)
    c["cscale"] = None if rng.random() < 0.02 else rng.choice(SCALES)
    r = rng.random()
    c["scale"] = None if r < 0.4 else (0.0 if r < 0.45 else rng.choice(SCALES))
    r = rng.random()
    c["via"] = "upload" if (c["w"] * c["h"] <= 20000 and r < 0.03) else "build" if (c["w"] * c["h"] <= 250000 and r < 0.10) else "direct"
    both_nonpos = c["cols"] is not None and c["rows"] is not None and (c["cols"] <= 0 or c["rows"] <= 0)
    if c["via"] == "upload" and (c["term"]["kind"] != "W" or c["term"]["lines"] == 0 or both_nonpos):
        c["via"] = "build"  # upload() talks to the real terminal object; a verbatim 0 is not written as c=0
    return c


def gen_integer_ratio(rng):
    """F-C15b class: one explicit dimension, an image/cell geometry for which the derived dimension is an EXACT integer,
    and scale factors that are not binary fractions (0.1, 0.3, 0.7 ...): float rounding of size*scale must not push the
    quotient over the integer.  No limit in the way in most cases, sometimes a limit exactly at the derived value."""
    cw, ch = rng.choice(CELLS)
    k = rng.choice([1, 2, 3, 4, 5, 8, 10, 16, 25, 32, 64, 100, 128, 200, 256])
    sq = rng.choice([8, 30, 100, 256, 333, 1000])
    # image aspect such that cols = rows * ch * w / (h * cw) is an integer: w/h = m * cw / ch
    m = rng.choice([1, 1, 2, 3])
    w, h = sq * m * cw, sq * ch
    c = base_case(w=w, h=h, ccell=[cw, ch], gscale=rng.choice([1.0, 0.1, 0.3, 0.7]), cscale=rng.choice([0.1, 0.3, 0.7, 0.01, 1.0]),
                  scale=rng.choice([None, None, 0.1, 0.3, 0.7]))
    if rng.random() < 0.5:
        c["rows"] = min(k, 256)
        derived = c["rows"] * m
        c["amr"] = 256
        c["amc"] = rng.choice([100000, 100000, derived, derived + 1, max(1, derived - 1)])
    else:
        c["cols"] = k * m
        c["amc"] = 100000
        c["amr"] = rng.choice([256, 256, min(256, k), min(256, k + 1)])
    return c


def base_case(**kw):
    c = {"w": 100, "h": 100, "cols": None, "rows": None, "amc": None, "amr": None, "scale": None, "ccell": None, "dcell": [8, 16],
         "cscale": 1.0, "gscale": 1.0, "cmc": None, "cmr": None, "term": {"kind": "W", "lines": 24, "cols": 80, "xpx": 640, "ypx": 384}, "via": "direct"}
    c.update(kw)
    return c


CORPUS = [
    base_case(rows=3, amr=1),                       # F-C15: explicit rows above the row limit
    base_case(rows=300),                            # F-C15: --rows 300 on an 80x24 terminal
    base_case(cols=300, w=333, h=100),              # explicit cols above the terminal width
    base_case(cols=81, cmc=None, h=1000),           # one above, rows then capped as well
    base_case(w=1, h=1, rows=3, amr=1),
    base_case(cols=5, rows=7), base_case(w=10000, h=1), base_case(w=1, h=10000),
    base_case(scale=0.0, cscale=0.3, gscale=0.1, w=1000, h=333),
    base_case(via="build", w=17, h=9, rows=2),
    base_case(via="upload", w=100, h=33, rows=3, amr=2), base_case(via="upload", w=16, h=17, scale=20.0),
    # F-C15b: derived dimension an exact integer, inexact scale factors (float rounding of size*scale)
    base_case(w=256, h=256, ccell=[8, 16], cscale=0.1, rows=3),
    base_case(w=8, h=8, ccell=[1, 1], cscale=0.1, gscale=0.1, scale=0.0, rows=255, amc=255, amr=256, cmc=24,
              dcell=[10, 20], term={"kind": "W", "lines": 60, "cols": 200, "xpx": 1800, "ypx": 0}),
    base_case(w=256, h=256, ccell=[9, 18], cscale=0.1, cols=14),
    # both dimensions given explicitly (kept as they are, whatever the limits), through every route, beyond 256
    base_case(via="upload", cols=3, rows=257), base_case(via="build", cols=10, rows=300), base_case(via="upload", cols=400, rows=1000, w=50, h=50),
    base_case(via="build", cols=257, rows=2), base_case(via="upload", cols=256, rows=256), base_case(cols=300, rows=300),
]


# ------------------------------------------------------------------------------------------ encodings
def o(x):
    return "N" if x is None else str(x)


def pr(x):
    return "N" if x is None else f"{x[0]},{x[1]}"


def frac_of_float(x):
    """decimal reading of a float written by the user (repr round-trips)"""
    return Fraction(repr(x))


def qs(x):
    if x is None:
        return "N"
    f = x if isinstance(x, Fraction) else frac_of_float(x)
    if abs(f.numerator) >= 2 ** 62 or f.denominator >= 2 ** 62:
        raise ValueError("rational too large for the line protocol")
    return f"{f.numerator}/{f.denominator}"


def term_fields(t):
    if t["kind"] == "W":
        return f"W {t['lines']} {t['cols']} {t['xpx']} {t['ypx']}"
    size = t["size"]
    return f"S {size if size in ('E',) else pr(size)} {pr(t['cell'])}"


def model_line(c):
    return " ".join(["c15.case", str(c["w"]), str(c["h"]), o(c["cols"]), o(c["rows"]), o(c["amc"]), o(c["amr"]), qs(c["scale"]),
                     pr(c["ccell"]), pr(c["dcell"]), qs(c["cscale"]), qs(c["gscale"]), o(c["cmc"]), o(c["cmr"]), term_fields(c["term"])])


def cz(x):
    return f"({x})" if x < 0 else str(x)


def co(x):
    return "None" if x is None else f"(Some {cz(x)})"


def cp(x):
    return "None" if x is None else f"(Some ({cz(x[0])}, {cz(x[1])}))"


def cf(x):
    return f"({float(x).hex()})%float"


def cfo(x):
    return "None" if x is None else f"(Some {cf(x)})"


def coq_term(t):
    if t["kind"] == "W":
        return f"(term_of_winsize (Build_winsize {t['lines']} {t['cols']} {t['xpx']} {t['ypx']}))"
    size = t["size"]
    s = "(Err EValue)" if size == "E" else f"(Ok {cp(size)})"
    return f"(Build_term {s} {cp(t['cell'])})"


def coq_case(c):
    cfg = f"(Build_config float {cp(c['ccell'])} ({c['dcell'][0]}, {c['dcell'][1]}) {cfo(c['cscale'])} {cf(c['gscale'])} {co(c['cmc'])} {co(c['cmr'])})"
    return (f"F.f_get_optimal_cols_and_rows {cfg} {coq_term(c['term'])} {c['w']} {c['h']} {co(c['cols'])} {co(c['rows'])} "
            f"{co(c['amc'])} {co(c['amr'])} {cfo(c['scale'])}")


SHARD_HEADER = """From Coq Require Import ZArith List PrimFloat.
From Tup Require Import Model.CellSize Model.CellSizeFloat.
Import ListNotations.
Open Scope Z_scope.
Definition cases : list (res (Z * Z)) := [
"""
RES_RE = re.compile(r"Ok\s*\(\s*(-?\d+)\s*,\s*(-?\d+)\s*\)|Err\s+(E\w+)")
ERRNAME = {"EValue": "ValueError", "EZeroDivision": "ZeroDivisionError", "EOverflow": "OverflowError"}


def run_shard(args):
    path, n = args
    p = subprocess.run(["timeout", "600", "coqc", "-Q", common.COQ, "Tup", path], cwd=os.path.dirname(path),
                       stdout=subprocess.PIPE, stderr=subprocess.STDOUT)
    out = p.stdout.decode()
    if p.returncode != 0:
        return None, out[-1500:]
    i = out.find("= [")
    body = out[i:] if i >= 0 else out
    res = []
    for m in RES_RE.finditer(body):
        if m.group(3):
            res.append(ERRNAME.get(m.group(3), m.group(3)))
        else:
            res.append([int(m.group(1)), int(m.group(2))])
    if len(res) != n:
        return None, f"{len(res)} results parsed for {n} cases: {out[-800:]}"
    return res, ""


def float_model(ctx, cases):
    """binary64 instance evaluated by coqc; returns list of results ([c, r] or error name) or raises"""
    d = os.path.join(ctx.work, "shards")
    os.makedirs(d, exist_ok=True)
    jobs = []
    for k in range(0, len(cases), 500):
        chunk = cases[k:k + 500]
        path = os.path.join(d, f"cases_{k // 500}.v")
        with open(path, "w") as f:
            f.write(SHARD_HEADER + ";\n".join(coq_case(c) for c in chunk) + "\n].\nEval vm_compute in cases.\n")
        jobs.append((path, len(chunk)))
    out = []
    with concurrent.futures.ThreadPoolExecutor(max_workers=8) as ex:
        for (res, err), (path, n) in zip(ex.map(run_shard, jobs), jobs):
            if res is None:
                raise RuntimeError(f"coqc on {os.path.basename(path)}: {err}")
            out.extend(res)
    return out


# ------------------------------------------------------------------------------------------ implementation
def run_impl(ctx, cases, timeout=1800):
    """All cases on ONE real TupimageTerminal inside a pty child.  Returns list of dicts
    {max: [mc, mr] | err, cell: [cw, ch] | err, opt: [c, r] | err}."""
    work = ctx.work

    def child():
        import fcntl
        import struct
        import termios

        common.scrub_process_env()
        os.environ["HOME"] = work
        os.environ["XDG_STATE_HOME"] = os.path.join(work, "state")
        os.environ["XDG_CONFIG_HOME"] = os.path.join(work, "config")
        tup = common.import_impl()
        from PIL import Image

        out_command = common.RecStream()
        t = tup.TupimageTerminal(out_command=out_command, out_display=common.RecStream(), in_response=open("/dev/tty", "rb", buffering=0),
                                 id_database=os.path.join(work, "c15.db"))
        real_term = t.term

        class StubTerm:
            def __init__(self, size, cell):
                self.size, self.cell = size, cell

            def get_size(self):
                if self.size == "E":
                    raise ValueError("Could not determine terminal size")
                return None if self.size is None else tuple(self.size)

            def get_cell_size(self):
                return None if self.cell is None else tuple(self.cell)

        def guarded(f):
            try:
                r = f()
                return [int(r[0]), int(r[1])]
            except Exception as e:  # noqa
                return type(e).__name__

        res = []
        file_gen = 0
        for c in cases:
            tm = c["term"]
            if tm["kind"] == "W":
                fcntl.ioctl(0, termios.TIOCSWINSZ, struct.pack("HHHH", tm["lines"], tm["cols"], tm["xpx"], tm["ypx"]))
                t.term = real_term
            else:
                t.term = StubTerm(tm["size"], tm["cell"])
            cfg = t._config
            cfg.cell_size = "auto" if c["ccell"] is None else tuple(c["ccell"])
            cfg.default_cell_size = tuple(c["dcell"])
            cfg.scale = c["cscale"]
            cfg.global_scale = c["gscale"]
            cfg.max_cols = "auto" if c["cmc"] is None else c["cmc"]
            cfg.max_rows = "auto" if c["cmr"] is None else c["cmr"]
            kw = dict(cols=c["cols"], rows=c["rows"], max_cols=c["amc"], max_rows=c["amr"], scale=c["scale"])
            r = {"max": guarded(lambda: t.get_max_cols_and_rows(max_cols=c["amc"], max_rows=c["amr"])),
                 "cell": guarded(t.get_cell_size),
                 "opt": guarded(lambda: t.get_optimal_cols_and_rows(c["w"], c["h"], **kw))}
            if c.get("via") == "build":
                def build():
                    inst = t.build_image_instance(Image.new("1", (c["w"], c["h"])), id=1, **kw)
                    return inst.cols, inst.rows
                r["build"] = guarded(build)
                # ... and for a FILE: always the same path, rewritten with this case's image (the size that counts is the
                # one the file has now)
                def build_file():
                    nonlocal file_gen
                    file_gen += 1
                    path = os.path.join(work, "c15-build.png")
                    Image.new("1", (c["w"], c["h"])).save(path)
                    os.utime(path, ns=(1_700_000_000_000_000_000 + file_gen * 10**9, 1_700_000_000_000_000_000 + file_gen * 10**9))
                    inst = t.build_image_instance(path, id=1, **kw)
                    return inst.cols, inst.rows
                r["build_file"] = guarded(build_file)
            if c.get("via") == "upload":
                # the r= and c= keys of the transmit command actually written to the terminal
                def upload():
                    out_command.writes.clear()
                    inst = t.upload(Image.new("RGB", (c["w"], c["h"])), force_upload=True, **kw)
                    m = [re.search(rb"[G,]" + k + rb"=(\d+)[,;]", out_command.writes[0]) for k in (b"c", b"r")]
                    if (inst.cols, inst.rows) != (int(m[0].group(1)), int(m[1].group(1))):
                        return -1, -1
                    return inst.cols, inst.rows
                r["build"] = guarded(upload)
            res.append(r)
        return res

    r = common.in_pty(child, timeout=timeout)
    if "ok" not in r:
        raise RuntimeError(f"implementation run failed in the pty sandbox: { {k: v for k, v in r.items() if k != 'tty'} }")
    return r["ok"]


def display_terminal_scenarios(ctx, cov):
    """The image is displayed on out_display.  When that stream is a terminal of its own (another pane, another pty) whose
    geometry differs from the controlling terminal's, the automatic limits and the automatic cell size are those of the
    DISPLAY terminal — whichever of the two was opened first."""
    work = ctx.work
    geoms = [((24, 80, 640, 384), (12, 40, 400, 240)), ((50, 200, 2000, 1000), (10, 30, 270, 200)), ((12, 40, 400, 240), (24, 80, 640, 384))]

    def child(ga, gb, b_first):
        import fcntl
        import pty
        import struct
        import termios

        common.scrub_process_env()
        os.environ["HOME"] = work
        os.environ["XDG_STATE_HOME"] = os.path.join(work, "state")
        os.environ["XDG_CONFIG_HOME"] = os.path.join(work, "config")
        tup = common.import_impl()
        fcntl.ioctl(0, termios.TIOCSWINSZ, struct.pack("HHHH", *ga))
        streams = {}

        def open_b():
            master, slave = pty.openpty()
            fcntl.ioctl(slave, termios.TIOCSWINSZ, struct.pack("HHHH", *gb))
            streams["b"] = os.fdopen(slave, "wb", buffering=0)

        def open_a():
            streams["a_in"] = open("/dev/tty", "rb", buffering=0)
            streams["a_out"] = open("/dev/tty", "wb", buffering=0)
        for f in ((open_b, open_a) if b_first else (open_a, open_b)):
            f()
        t = tup.TupimageTerminal(out_command=streams["a_out"], out_display=streams["b"], in_response=streams["a_in"], id_database=os.path.join(work, "c15-two.db"),
                                 config="DEFAULT", redetect_terminal=False, num_tmux_layers=0)
        return {"max": list(t.get_max_cols_and_rows()), "cell": list(t.get_cell_size()), "opt": list(t.get_optimal_cols_and_rows(1000, 100)),
                "fds": [streams["b"].fileno(), streams["a_in"].fileno(), streams["a_out"].fileno()]}

    for ga, gb in geoms:
        for b_first in (False, True):
            r = common.in_pty(lambda ga=ga, gb=gb, b_first=b_first: child(ga, gb, b_first), timeout=120)
            if "ok" not in r:
                ctx.corr_breaks.append({"what": "two-terminal scenario failed in the pty sandbox", "error": {k: v for k, v in r.items() if k != "tty"}})
                continue
            o = r["ok"]
            want_max = [gb[1], gb[0]]
            want_cell = [gb[2] // gb[1], gb[3] // gb[0]]
            cov.add({"controlling": ga, "display": gb, "display_opened_first": b_first, "observed": o}, klass="two-terminals/" + ("display-first" if b_first else "tty-first"))
            if o["max"] != want_max or o["cell"] != want_cell or o["opt"][0] > gb[1] or o["opt"][1] > gb[0]:
                ctx.violations.append({"signature": {"class": "limits-of-the-wrong-terminal"},
                                       "what": f"out_display is a terminal of {gb[1]}x{gb[0]} cells of {want_cell[0]}x{want_cell[1]} px, the controlling terminal has {ga[1]}x{ga[0]} cells: "
                                               f"automatic limits {o['max']}, cell size {o['cell']}, box for a 1000x100 image {o['opt']} (stream fds display/in/out: {o['fds']})",
                                       "case": {"kind": "two-terminals", "controlling": list(ga), "display": list(gb), "display_opened_first": b_first}})


# ------------------------------------------------------------------------------------------ Spec oracle
def ceil_frac(x):
    return -((-x.numerator) // x.denominator)


def spec_effective_scale(c):
    local = c["scale"] if c["scale"] else c["cscale"]  # None and 0.0: not given
    return frac_of_float(c["gscale"]) * (frac_of_float(local) if local is not None else 1)


def no_unused(W, H, cw, ch, C, R):
    """Spec/SizingSpec.no_unused_row_or_col: fit W x H into C*cw x R*ch keeping the aspect ratio"""
    BW, BH = Fraction(C * cw), Fraction(R * ch)
    f = min(BW / W, BH / H)
    return (C - 1) * cw < f * W and (R - 1) * ch < f * H


def smallest_box(W, H, cw, ch, C, R):
    return W <= C * cw and H <= R * ch and (C - 1) * cw < W and (R - 1) * ch < H


def clauses_at(c, W, H, mc, mr, cw, ch, C, R):
    """names of the clauses 2-4 of the statement that fail for the answer (C, R), image size W x H.
    The clauses that only depend on the ASPECT RATIO (no unused row/column; an explicit dimension is kept unless the
    other one had to be capped) are evaluated on the unscaled integer size w x h: the scale cancels there, so no
    rounding of the scale factors can excuse an answer (since the repair of F-C15b the code derives these dimensions
    from the unscaled size, and for sizes up to 10^4 px one correctly rounded division of integers cannot cross an
    integer).  Only the fully automatic box depends on the scaled size W x H."""
    bad = []
    cols, rows = c["cols"], c["rows"]
    Wa, Ha = Fraction(c["w"]), Fraction(c["h"])
    if cols is None and rows is None:
        C0, R0 = ceil_frac(W / cw), ceil_frac(H / ch)
        if C0 <= mc and R0 <= mr and (C, R) != (C0, R0):
            bad.append("auto-not-smallest-containing-box")
        if C0 <= mc and R0 <= mr and not smallest_box(W, H, cw, ch, C, R):
            bad.append("auto-not-smallest-containing-box")
    # fully automatic and not capped: the box follows the scaled size (and its rounding); otherwise one dimension was
    # derived from the other through the aspect ratio alone
    auto_uncapped = cols is None and rows is None and ceil_frac(W / cw) <= mc and ceil_frac(H / ch) <= mr
    if not (no_unused(W, H, cw, ch, C, R) if auto_uncapped else no_unused(Wa, Ha, cw, ch, C, R)):
        bad.append("unused-row-or-col")
    if cols is not None and cols <= mc:
        r0 = ceil_frac(Fraction(cols * cw) * Ha / (Wa * ch))
        if not (C == cols or (r0 > mr and R == mr)):
            bad.append("explicit-cols-not-kept")
    if rows is not None and rows <= mr:
        c0 = ceil_frac(Fraction(rows * ch) * Wa / (Ha * cw))
        if not (R == rows or (c0 > mc and C == mc)):
            bad.append("explicit-rows-not-kept")
    return sorted(set(bad))


def spec_limits(c, mc, mr):
    """clause 1, limits: independent reading of where the limits come from"""
    bad = []
    if not (mc >= 1 and 1 <= mr <= 256):
        bad.append("limits-out-of-range")
    t = c["term"]
    size = (t["cols"], t["lines"]) if t["kind"] == "W" else (tuple(t["size"]) if isinstance(t["size"], list) else None)
    want_c = c["amc"] if c["amc"] is not None else (c["cmc"] if c["cmc"] is not None else (size[0] if size else None))
    want_r = c["amr"] if c["amr"] is not None else (c["cmr"] if c["cmr"] is not None else (size[1] if size else None))
    if want_c is not None and want_c >= 1 and mc != want_c:
        bad.append("column-limit-source")
    if want_r is not None and want_r >= 1 and mr != min(256, want_r):
        bad.append("row-limit-source")
    return bad


def spec_cell(c):
    """independent reading of 'cell size from the configuration, else TIOCGWINSZ pixels / cells, else the default'"""
    if c["ccell"] is not None:
        return list(c["ccell"])
    t = c["term"]
    if t["kind"] == "S":
        return list(t["cell"]) if t["cell"] is not None else list(c["dcell"])
    if t["lines"] and t["cols"] and t["xpx"] and t["ypx"]:
        return [t["xpx"] // t["cols"], t["ypx"] // t["lines"]]
    return list(c["dcell"])


def oracle(c, r):
    """-> (status, failing clauses, info).  status: 'na' | 'exact' | 'rounding' | 'VIOLATION'"""
    opt, mx, cell = r["opt"], r["max"], r["cell"]
    cols, rows = c["cols"], c["rows"]
    if cols is not None and rows is not None:
        return ("exact", [], {}) if opt == [cols, rows] else ("VIOLATION", ["explicit-not-verbatim"], {})
    if not isinstance(opt, list):
        # an exception: legitimate only for non-positive explicit values, an undeterminable terminal size, a zero cell size
        legit = (cols is not None and cols <= 0) or (rows is not None and rows <= 0) or not isinstance(mx, list) or \
                (isinstance(cell, list) and (cell[0] <= 0 or cell[1] <= 0))
        return ("na", [], {}) if legit else ("VIOLATION", ["unexpected-exception:" + str(opt)], {})
    C, R = opt
    if not isinstance(mx, list):
        return "VIOLATION", ["answer-without-limits"], {}
    mc, mr = mx
    bad = spec_limits(c, mc, mr)
    if not (1 <= C <= mc and 1 <= R <= mr and R <= 256):
        bad.append("out-of-limits")
    if bad:
        return "VIOLATION", bad, {"limits": [mc, mr]}
    if cell != spec_cell(c):
        return "VIOLATION", ["cell-size-source"], {"limits": [mc, mr], "cell_expected": spec_cell(c)}
    cw, ch = cell
    s = spec_effective_scale(c)
    if cw <= 0 or ch <= 0 or s <= 0:
        return "na", [], {}
    W, H = c["w"] * s, c["h"] * s
    info = {"limits": [mc, mr], "cell": [cw, ch], "scaled_size": [str(W), str(H)]}
    exact = clauses_at(c, W, H, mc, mr, cw, ch, C, R)
    if not exact:
        return "exact", [], info
    for dw in (0, 1, -1):
        for dh in (0, 1, -1):
            if (dw or dh) and not clauses_at(c, W * (1 + dw * EPS), H * (1 + dh * EPS), mc, mr, cw, ch, C, R):
                return "rounding", exact, info
    return "VIOLATION", exact, info


def dims_class(c, mx):
    cols, rows = c["cols"], c["rows"]
    if cols is not None and rows is not None:
        return "both-explicit"
    if (cols is not None and cols <= 0) or (rows is not None and rows <= 0):
        return "nonpositive"
    if cols is None and rows is None:
        return "auto"
    if not isinstance(mx, list):
        return "explicit/no-limits"
    name, v, lim = ("cols", cols, mx[0]) if cols is not None else ("rows", rows, mx[1])
    return f"{name}{'<' if v < lim else '=' if v == lim else '>'}limit"


# ------------------------------------------------------------------------------------------ run
def evaluate(ctx, model, cases, cov, stats):
    impl = run_impl(ctx, cases)
    fl = ex = None
    if model is not None:
        try:
            fl = float_model(ctx, cases)
        except Exception as e:  # noqa
            ctx.corr_breaks.append({"what": "binary64 model could not be evaluated by coqc", "error": str(e)[-1500:]})
        ex = model.batch([model_line(c) for c in cases])
    spec_reqs, spec_idx = [], []
    for i, (c, r) in enumerate(zip(cases, impl)):
        opt = r["opt"]
        # ---- correspondence
        if "build" in r and r["build"] != opt:
            ctx.corr_breaks.append({"what": f"{c['via']}: sizes of the image instance / c= r= of the transmit command differ from get_optimal_cols_and_rows", "case": c, "impl": [r["build"], opt]})
            # the box the user GETS (instance, stored description, c=/r= on the wire) is the one the statement speaks about
            if isinstance(opt, list) and isinstance(r["build"], list):
                ctx.violations.append({"signature": {"class": "box-of-the-request-differs-from-the-computed-box", "via": c["via"]},
                                       "what": f"{'upload()' if c['via'] == 'upload' else 'build_image_instance()'} of a {c['w']}x{c['h']} image with cols={c['cols']} rows={c['rows']} gives the box {r['build']}; "
                                               f"get_optimal_cols_and_rows with the same arguments gives {opt}", "case": c})
        if "build_file" in r and r["build_file"] != opt:
            # the box of an image FILE is the box of the image the file holds now (opt is judged by the oracle below)
            ctx.violations.append({"signature": {"class": "image-file-box-differs-from-box-of-its-current-size", "dims": dims_class(c, r["max"]) if isinstance(r["max"], list) else "?"},
                                   "what": f"build_image_instance(<file holding a {c['w']}x{c['h']} image>) gives {r['build_file']}, get_optimal_cols_and_rows({c['w']}, {c['h']}) gives {opt} "
                                           "(the same path held images of other sizes before)", "case": c})
        if fl is not None and fl[i] != opt:
            ctx.corr_breaks.append({"what": "get_optimal_cols_and_rows differs from the binary64 model (Model/CellSizeFloat.v)", "case": c, "impl": opt, "model": fl[i]})
        agree = None
        if ex is not None:
            m_max, m_cell, m_opt = ex[i].split("|")
            def dec(s):
                p = s.split()
                return [int(p[1]), int(p[2])] if p[0] == "OK" else p[1]
            if dec(m_max) != r["max"]:
                ctx.corr_breaks.append({"what": "get_max_cols_and_rows differs from the model", "case": c, "impl": r["max"], "model": m_max})
            if isinstance(r["cell"], list) and [int(x) for x in m_cell.split()] != r["cell"]:
                ctx.corr_breaks.append({"what": "get_cell_size differs from the model", "case": c, "impl": r["cell"], "model": m_cell})
            agree = dec(m_opt) == opt
            stats["exact_agree" if agree else "exact_differ"] += 1
        # ---- Spec oracle on the implementation's answer
        status, bad, info = oracle(c, r)
        stats["oracle_" + status] += 1
        if status == "VIOLATION":
            ctx.violations.append({
                "signature": {"class": bad[0], "dims": dims_class(c, r["max"])},
                "what": f"get_optimal_cols_and_rows answered {opt} (limits {r['max']}, cell {r['cell']}): violates {', '.join(bad)}",
                "case": c, "observed": r, "spec": info})
        elif agree is False and status != "na" and status != "rounding":
            # exact and float instances differ although the float answer is exact for the Spec: both answers meet the
            # Spec only if the decimal reading differs from the float's value — counted, reported in the evidence
            stats["exact_differ_both_meet_spec"] += 1
        if agree is False and status == "na":
            ctx.corr_breaks.append({"what": "rational model differs from the implementation outside the sizing domain (errors / degenerate input)",
                                    "case": c, "impl": opt, "model": ex[i]})
        if model is not None and status in ("exact", "rounding", "VIOLATION") and "scaled_size" in info and isinstance(opt, list):
            W, H = (Fraction(x) for x in info["scaled_size"])
            cw, ch = info["cell"]
            spec_reqs.append(f"c15.spec_no_unused {qs(W)} {qs(H)} {cw} {ch} {opt[0]} {opt[1]}")
            spec_idx.append((i, no_unused(W, H, cw, ch, opt[0], opt[1])))
        # ---- coverage
        mx = r["max"]
        outcome = "error" if not isinstance(opt, list) else ("both-at-limit" if isinstance(mx, list) and opt == mx else
                                                             "cols-at-limit" if isinstance(mx, list) and opt[0] == mx[0] else
                                                             "rows-at-limit" if isinstance(mx, list) and opt[1] == mx[1] else "free")
        cov.add(c, nontrivial=isinstance(opt, list) and not (c["cols"] is not None and c["rows"] is not None),
                klass=f"{dims_class(c, mx)}/{outcome}/{'stub-term' if c['term']['kind'] == 'S' else 'tty'}")
    if spec_reqs:
        for (i, py), rep in zip(spec_idx, model.batch(spec_reqs)):
            stats["spec_extracted_evaluated"] += 1
            if (rep == "1") != py:
                ctx.corr_breaks.append({"what": "extracted Spec.no_unused_row_or_colb disagrees with the Fraction oracle", "case": cases[i], "coq": rep, "python": py})
    return impl


def run(ctx, model):
    cov = common.Coverage("case = all inputs of one get_optimal_cols_and_rows call (image size, explicit dims, call/config limits, scales, cell-size source, "
                          "terminal window size); non-trivial = an answer was computed (not both explicit, no exception); distinct by hash of the case")
    common.scrub_process_env()
    n = ctx.pick(10000, 300000)
    cases = [dict(c) for c in CORPUS] + [gen_case(ctx.rng) for _ in range(n)] + [gen_integer_ratio(ctx.rng) for _ in range(max(60, n // 10))]
    from collections import Counter
    stats = Counter()
    evaluate(ctx, model, cases, cov, stats)
    display_terminal_scenarios(ctx, cov)
    # the command line computes the same box as the library call with the same parameters, also when a limit or a scale comes
    # from the environment layer and the command line says nothing about it
    import c08_cli
    c08_cli.cli_equivalence(ctx, cov, ctx.pick(18, 120), env_rate=0.8)
    for k, v in sorted(stats.items()):
        cov.bump("~" + k, v)
    ctx.notes.append("binary64 vs exact-rational instance (decimal reading of the scales): "
                     f"{stats['exact_agree']} agree, {stats['exact_differ']} differ; Spec oracle on the implementation's answers: "
                     f"{stats['oracle_exact']} exact, {stats['oracle_rounding']} only within 2^-40 relative rounding, "
                     f"{stats['oracle_na']} outside the domain (errors, both explicit handled separately), {stats['oracle_VIOLATION']} violations")
    return cov


def replay(ctx, model, rec):
    c = rec["case"]
    if c.get("kind") == "cli-equivalence":
        import c08_cli
        n0 = len(ctx.violations)
        c08_cli.cli_equivalence(ctx, common.Coverage("replay"), 40, env_rate=0.8)
        mine = ctx.violations[n0:]
        del ctx.violations[n0:]
        return {"violates": bool(mine), "violations": [v["what"] for v in mine][:3]}
    if c.get("kind") == "two-terminals":
        n0 = len(ctx.violations)
        display_terminal_scenarios(ctx, common.Coverage("replay"))
        mine = ctx.violations[n0:]
        del ctx.violations[n0:]
        return {"violates": bool(mine), "violations": [v["what"] for v in mine][:3]}
    common.scrub_process_env()
    r = run_impl(ctx, [c], timeout=120)[0]
    status, bad, info = oracle(c, r)
    return {"violates": status == "VIOLATION", "observed": r, "failing_clauses": bad, "spec": info}
