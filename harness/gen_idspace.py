"""Extractor plug-in for C10 (and C01/C02/C14, which reuse Model/IdSpace.v):
tupimage/id_manager.py classes IDSubspace and IDSpace  ->  coq/Gen/IdSpaceGen.v.

Every method of the two classes is compared, statement by statement, with the text in
EXPECTED below (the code as it was when Model/IdSpace.v was written).  In EXPECTED the integer
literals that the model consumes are written as names `K_<name>`; at such a position the source
may have any constant integer expression (literals combined with + - * <<), whose value becomes
`Definition <name> : N` in the generated file.  Everything else (control flow, operators, names,
the remaining literals, strings) must be identical, otherwise extraction fails (fail-closed).
Docstrings, annotations and the message arguments of `raise` are ignored.

The `if s in (...): return IDSpace(cb, d)` table of IDSpace.from_string is read generically.
The SQL range filter of IDManager is checked textually: every SQL string that mentions BETWEEN
must use `(id & ?) BETWEEN ? AND ?` and must be fed `(…subspace_byte_mask(), begin, end - 1)`.
"""
import ast
import re

from gen_tables import extractor, parse, find_class, find_func, expect, coq_bytes, coq_list, coq_bool, HEADER, ExtractError

EXPECTED = r'''
class IDSubspace:
    begin: int = K_sub_default_begin
    end: int = K_sub_default_end

    def __post_init__(self):
        if not (K_sub_min <= self.begin < self.end <= K_sub_max):
            raise ValueError()
        if self.end == K_sub_bad_end:
            raise ValueError()

    def __str__(self):
        return f"{self.begin}:{self.end}"

    @staticmethod
    def from_string(s):
        if not s:
            return IDSubspace()
        try:
            begin, end = s.split(":")
            begin = int(begin)
            end = int(end)
        except ValueError:
            raise ValueError()
        return IDSubspace(begin, end)

    def rand_byte(self):
        return secrets.randbelow(self.end - self.begin) + self.begin

    def rand_nonzero_byte(self):
        if self.begin <= 0:
            return secrets.randbelow(self.end - 1) + 1
        return self.rand_byte()

    def all_byte_values(self):
        return range(self.begin, self.end)

    def all_nonzero_byte_values(self):
        if self.begin <= 0:
            return range(1, self.end)
        return range(self.begin, self.end)

    def num_byte_values(self):
        return self.end - self.begin

    def num_nonzero_byte_values(self):
        if self.begin <= 0:
            return self.end - 1
        return self.end - self.begin

    def contains_byte(self, b):
        return self.begin <= b < self.end

    def split(self, count):
        if count <= 0:
            raise ValueError()
        if count == 1:
            return [self]
        if self.num_nonzero_byte_values() < count:
            raise ValueError()
        size = self.num_nonzero_byte_values() // count
        remainder = self.num_byte_values() - size * count
        subspaces = []
        for begin in range(self.begin + remainder, self.end, size):
            subspaces.append(IDSubspace(begin, begin + size))
        subspaces[0] = IDSubspace(self.begin, subspaces[0].end)
        return subspaces


class IDSpace:
    color_bits: int = K_space_default_color_bits
    use_3rd_diacritic: bool = True

    def __post_init__(self):
        if self.color_bits == 0 and not self.use_3rd_diacritic:
            raise ValueError()
        if self.color_bits not in [K_valid_cb_a, K_valid_cb_b, K_valid_cb_c]:
            raise ValueError()

    def __str__(self):
        bits = self.num_nonzero_bits()
        if bits == 8 and self.use_3rd_diacritic:
            return "8bit_diacritic"
        return f"{bits}bit"

    @staticmethod
    def from_id(id):
        if id <= 0 or id > K_fid_max:
            raise ValueError()
        use_3rd_diacritic = (id & K_fid_mask3) != 0
        color_bits = K_fid_cb0
        if (id & K_fid_mask012) != 0:
            if (id & K_fid_mask12) != 0:
                color_bits = K_fid_cb24
            else:
                color_bits = K_fid_cb8
        return IDSpace(color_bits, use_3rd_diacritic)

    def num_nonzero_bits(self):
        return (K_nzb_3rd if self.use_3rd_diacritic else 0) + self.color_bits

    def namespace_name(self):
        if self.use_3rd_diacritic:
            return f"ids_{self}"
        else:
            return f"ids_{self}"

    def contains(self, id):
        return self.from_id(id) == self

    def contains_and_in_subspace(self, id, subspace):
        begin, end = self.subspace_masked_range(subspace)
        return self.contains(id) and (begin <= (id & self.subspace_byte_mask()) < end)

    def gen_random_id(self, subspace=IDSubspace()):
        byte_0 = 0
        byte_1 = 0
        byte_2 = 0
        byte_3 = 0
        if self.use_3rd_diacritic:
            byte_3 = subspace.rand_nonzero_byte()
            if self.color_bits == 8:
                byte_0 = secrets.randbelow(K_gr_16_b0) + 1
            elif self.color_bits == 24:
                byte_0 = secrets.randbelow(K_gr_32_b0)
                byte_2 = secrets.randbelow(K_gr_32_b2)
                if byte_2 == 0:
                    byte_1 = secrets.randbelow(K_gr_32_b1nz) + 1
                else:
                    byte_1 = secrets.randbelow(K_gr_32_b1)
        else:
            if self.color_bits == 8:
                byte_0 = subspace.rand_nonzero_byte()
            elif self.color_bits == 24:
                byte_0 = secrets.randbelow(K_gr_24_b0)
                byte_2 = subspace.rand_byte()
                if byte_2 == 0:
                    byte_1 = secrets.randbelow(K_gr_24_b1nz) + 1
                else:
                    byte_1 = secrets.randbelow(K_gr_24_b1)
        return (byte_3 << K_gr_sh3) | (byte_2 << K_gr_sh2) | (byte_1 << K_gr_sh1) | byte_0

    def all_ids(self, subspace=IDSubspace()):
        byte_0 = lambda: [0]
        byte_1_2 = lambda: [0]
        byte_3 = lambda: [0]
        if self.use_3rd_diacritic:
            byte_3 = lambda: subspace.all_nonzero_byte_values()
            if self.color_bits == 8:
                byte_0 = lambda: range(K_ai_16_b0_lo, K_ai_16_b0_hi)
            elif self.color_bits == 24:
                byte_0 = lambda: range(K_ai_32_b0_lo, K_ai_32_b0_hi)
                byte_1_2 = lambda: range(K_ai_32_b12_lo, K_ai_32_b12_hi)
        else:
            if self.color_bits == 8:
                byte_0 = lambda: subspace.all_nonzero_byte_values()
            elif self.color_bits == 24:
                byte_0 = lambda: range(K_ai_24_b0_lo, K_ai_24_b0_hi)
                byte_1_2 = lambda: (
                    (b2 << K_ai_24_sh2) | b1
                    for b2 in subspace.all_byte_values()
                    for b1 in range(K_ai_24_b1_lo_z if b2 == 0 else K_ai_24_b1_lo, K_ai_24_b1_hi)
                )
        for b3 in byte_3():
            for b12 in byte_1_2():
                for b0 in byte_0():
                    yield (b3 << K_ai_sh3) | (b12 << K_ai_sh12) | b0

    def subspace_size(self, subspace=IDSubspace()):
        byte_0_cnt = 1
        byte_12_cnt = 1
        byte_3_cnt = 1
        if self.use_3rd_diacritic:
            byte_3_cnt = subspace.num_nonzero_byte_values()
            if self.color_bits == 8:
                byte_0_cnt = K_sz_16_b0
            elif self.color_bits == 24:
                byte_0_cnt = K_sz_32_b0
                byte_12_cnt = K_sz_32_b12
        else:
            if self.color_bits == 8:
                byte_0_cnt = subspace.num_nonzero_byte_values()
            elif self.color_bits == 24:
                byte_0_cnt = K_sz_24_b0
                byte_12_cnt = subspace.num_byte_values() * K_sz_24_mul
                if subspace.begin <= 0:
                    byte_12_cnt -= K_sz_24_dec
        return byte_3_cnt * byte_12_cnt * byte_0_cnt

    def subspace_byte_offset(self):
        if self.use_3rd_diacritic:
            return K_off_3rd
        if self.color_bits == 24:
            return K_off_24
        return K_off_else

    def subspace_byte_mask(self):
        return K_byte_mask << self.subspace_byte_offset()

    def subspace_masked_range(self, subspace):
        offset = self.subspace_byte_offset()
        return (subspace.begin << offset, subspace.end << offset)

    @staticmethod
    def get_subspace_byte(id):
        offset = IDSpace.from_id(id).subspace_byte_offset()
        return (id >> offset) & K_gsb_mask

    @staticmethod
    def all_values():
        for use_3rd_diacritic in [True, False]:
            for color_bits in [K_av_cb_a, K_av_cb_b, K_av_cb_c]:
                if color_bits == 0 and not use_3rd_diacritic:
                    continue
                yield IDSpace(color_bits, use_3rd_diacritic)
'''

# methods whose shape is not compared with EXPECTED (read generically below)
GENERIC = {("IDSpace", "from_string")}


def _translated():
    import gen_pytrans
    return {c: set(ms) for c, ms in gen_pytrans.METHODS.items()}


class _Lazy(dict):
    def get(self, k, d=None):
        if not self:
            self.update(_translated())
        return dict.get(self, k, d)


TRANSLATED = _Lazy()


def _golden_constants():
    import os
    p = os.path.join(os.path.dirname(os.path.abspath(__file__)), "..", "coq", "GenGolden", "IdSpaceGen.v")
    out = {}
    with open(p) as f:
        for m in re.finditer(r"Definition (\w+) : N := (\d+)\.", f.read()):
            out[m.group(1)] = int(m.group(2))
    return out


def _placeholder_names(node):
    return [n.id for n in ast.walk(node) if isinstance(n, ast.Name) and n.id.startswith("K_")]


def _const_int_expr(node):
    """Value of a constant integer expression (int literals with + - * <<), else None."""
    if isinstance(node, ast.Constant) and isinstance(node.value, int) and not isinstance(node.value, bool):
        return node.value
    if isinstance(node, ast.BinOp):
        a, b = _const_int_expr(node.left), _const_int_expr(node.right)
        if a is None or b is None:
            return None
        if isinstance(node.op, ast.Add):
            return a + b
        if isinstance(node.op, ast.Sub):
            return a - b
        if isinstance(node.op, ast.Mult):
            return a * b
        if isinstance(node.op, ast.LShift) and 0 <= b <= 64:
            return a << b
    return None


def _strip_doc(body):
    if body and isinstance(body[0], ast.Expr) and isinstance(body[0].value, ast.Constant) and isinstance(body[0].value.value, str):
        return body[1:]
    return body


def _match(act, exp, env, where):
    """Structural comparison; K_ names on the expected side bind constant int expressions."""
    if isinstance(exp, ast.Name) and exp.id.startswith("K_"):
        v = _const_int_expr(act)
        expect(v is not None and v >= 0, f"{where}: expected a non-negative integer constant for {exp.id}, found `{ast.unparse(act)[:80]}`")
        expect(exp.id not in env, f"internal: duplicate placeholder {exp.id}")
        env[exp.id] = v
        return
    expect(type(act) is type(exp), f"{where}: shape changed: found `{_short(act)}` where `{_short(exp)}` was")
    if isinstance(exp, ast.Raise):
        # only the exception class matters
        a, e = act.exc, exp.exc
        an = a.func if isinstance(a, ast.Call) else a
        en = e.func if isinstance(e, ast.Call) else e
        expect(an is not None and ast.dump(an) == ast.dump(en), f"{where}: raise of a different exception: `{_short(act)}`")
        return
    for f in exp._fields:
        if f in ("annotation", "returns", "type_comment"):
            continue
        av, ev = getattr(act, f, None), getattr(exp, f, None)
        if f == "body" and isinstance(exp, (ast.FunctionDef, ast.ClassDef)):
            av, ev = _strip_doc(av), _strip_doc(ev)
        _match_val(av, ev, env, f"{where}")


def _match_val(av, ev, env, where):
    if isinstance(ev, list):
        expect(isinstance(av, list) and len(av) == len(ev),
               f"{where}: number of statements/elements changed ({len(av) if isinstance(av, list) else '?'} vs {len(ev)}): `{_short(av)}`")
        for a, e in zip(av, ev):
            _match_val(a, e, env, where)
    elif isinstance(ev, ast.AST):
        expect(isinstance(av, ast.AST), f"{where}: shape changed near `{_short(ev)}`")
        _match(av, ev, env, where)
    else:
        expect(av == ev, f"{where}: `{av!r}` where `{ev!r}` was")


def _short(n):
    try:
        if isinstance(n, list):
            return "; ".join(ast.unparse(x) for x in n)[:100]
        return ast.unparse(n)[:100].replace("\n", " ")
    except Exception:  # noqa
        return repr(n)[:100]


def _members(cls):
    """name -> node for methods; annotated class attributes as ('attr', name) -> value node."""
    funcs, attrs = {}, {}
    for n in _strip_doc(cls.body):
        if isinstance(n, ast.FunctionDef):
            expect(n.name not in funcs, f"{cls.name}.{n.name} defined twice")
            funcs[n.name] = n
        elif isinstance(n, ast.AnnAssign) and isinstance(n.target, ast.Name):
            attrs[n.target.id] = n.value
        else:
            raise ExtractError(f"{cls.name}: unexpected class-level statement `{_short(n)}`")
    return funcs, attrs


def _from_string_table(fn):
    """IDSpace.from_string: `if s in (names…): return IDSpace(cb, d)` … `raise ValueError`."""
    body = _strip_doc(fn.body)
    expect(len(body) >= 2, "IDSpace.from_string: body too short")
    expect([a.arg for a in fn.args.args] == ["s"], "IDSpace.from_string: parameters changed")
    table = []
    for st in body[:-1]:
        expect(isinstance(st, ast.If) and not st.orelse and len(st.body) == 1, f"IDSpace.from_string: expected `if s in (...): return ...`, found `{_short(st)}`")
        t = st.test
        expect(isinstance(t, ast.Compare) and len(t.ops) == 1 and isinstance(t.ops[0], ast.In) and isinstance(t.left, ast.Name) and t.left.id == "s"
               and isinstance(t.comparators[0], (ast.Tuple, ast.List)), f"IDSpace.from_string: test `{_short(t)}`")
        names = []
        for e in t.comparators[0].elts:
            expect(isinstance(e, ast.Constant) and isinstance(e.value, str) and e.value.isascii(), "IDSpace.from_string: name is not an ASCII string literal")
            names.append(e.value)
        r = st.body[0]
        expect(isinstance(r, ast.Return) and isinstance(r.value, ast.Call) and isinstance(r.value.func, ast.Name) and r.value.func.id == "IDSpace"
               and len(r.value.args) == 2 and not r.value.keywords, f"IDSpace.from_string: `{_short(r)}`")
        cb = _const_int_expr(r.value.args[0])
        d = r.value.args[1]
        expect(cb is not None and cb >= 0, "IDSpace.from_string: color bits not a constant")
        expect(isinstance(d, ast.Constant) and isinstance(d.value, bool), "IDSpace.from_string: use_3rd_diacritic not a bool literal")
        table.append((names, cb, d.value))
    last = body[-1]
    expect(isinstance(last, ast.Raise) and isinstance(last.exc, ast.Call) and ast.unparse(last.exc.func) == "ValueError", "IDSpace.from_string: final raise")
    return table


SQL_FILTER = "(id & ?) BETWEEN ? AND ?"


def _sql_filter_sites(cls):
    """Every SQL text in IDManager that mentions BETWEEN uses exactly the masked-range filter, and
    the number of filters equals the number of (mask, begin, end - 1) parameter triples."""
    n_filters = 0
    n_triples = 0
    for node in ast.walk(cls):
        if isinstance(node, ast.Constant) and isinstance(node.value, str) and re.search(r"\bBETWEEN\b", node.value, re.I):
            text = " ".join(node.value.split())
            k = len(re.findall(r"\bBETWEEN\b", text, re.I))
            expect(text.count(SQL_FILTER) == k, f"IDManager: SQL range filter changed: `{text[:120]}`")
            n_filters += k
        if isinstance(node, ast.Tuple):
            srcs = [ast.unparse(e) for e in node.elts]
            for i in range(len(srcs) - 2):
                if srcs[i].endswith(".subspace_byte_mask()"):
                    expect(srcs[i] == "id_space.subspace_byte_mask()" and srcs[i + 1] == "begin" and srcs[i + 2] == "end - 1",
                           f"IDManager: SQL filter parameters changed: `{', '.join(srcs[i:i + 3])}`")
                    n_triples += 1
            for i, s in enumerate(srcs):
                if s.endswith(".subspace_byte_mask()") and i > len(srcs) - 3:
                    raise ExtractError(f"IDManager: SQL filter parameters changed: `{', '.join(srcs)}`")
    # the triple hoisted into a local of the method (`p = (id_space.subspace_byte_mask(), begin, end - 1)`, assigned once, after
    # `begin, end = ...`, none of the names involved assigned again): every use of p as the parameters of an execute() call —
    # `execute(sql, p)` or `execute(sql, (x, *p))` — is a triple; the definition itself is not
    for fn in cls.body:
        if not isinstance(fn, ast.FunctionDef):
            continue
        for i, st in enumerate(fn.body):
            if not (isinstance(st, ast.Assign) and len(st.targets) == 1 and isinstance(st.targets[0], ast.Name) and isinstance(st.value, ast.Tuple)
                    and [ast.unparse(e) for e in st.value.elts] == ["id_space.subspace_byte_mask()", "begin", "end - 1"]):
                continue
            name = st.targets[0].id
            stores = {}
            for n in ast.walk(fn):
                if isinstance(n, ast.Name) and isinstance(n.ctx, ast.Store):
                    stores[n.id] = stores.get(n.id, 0) + 1
            before = [ast.unparse(x) for x in fn.body[:i]]
            expect(stores.get(name) == 1 and stores.get("begin") == 1 and stores.get("end") == 1 and "id_space" not in stores
                   and "begin, end = id_space.subspace_masked_range(subspace)" in before,
                   f"IDManager.{fn.name}: hoisted filter parameters `{name}` are not a single assignment after the masked range")
            uses = 0
            for n in ast.walk(fn):
                if isinstance(n, ast.Call) and isinstance(n.func, ast.Attribute) and n.func.attr == "execute" and len(n.args) == 2:
                    a = n.args[1]
                    if isinstance(a, ast.Name) and a.id == name:
                        uses += 1
                    elif isinstance(a, ast.Tuple) and a.elts and isinstance(a.elts[-1], ast.Starred) and isinstance(a.elts[-1].value, ast.Name) and a.elts[-1].value.id == name:
                        uses += 1
            loads = sum(1 for n in ast.walk(fn) if isinstance(n, ast.Name) and n.id == name and isinstance(n.ctx, ast.Load))
            expect(uses == loads and uses > 0, f"IDManager.{fn.name}: `{name}` is used other than as the parameters of execute()")
            n_triples += uses - 1
    expect(n_filters > 0 and n_filters == n_triples, f"IDManager: {n_filters} SQL range filters but {n_triples} (mask, begin, end - 1) parameter triples")
    # `begin, end = id_space.subspace_masked_range(subspace)` in every method that uses the filter
    for fn in cls.body:
        if isinstance(fn, ast.FunctionDef):
            src = ast.unparse(fn)
            if "subspace_byte_mask()" in src:
                expect("begin, end = id_space.subspace_masked_range(subspace)" in src, f"IDManager.{fn.name}: masked range is not taken from subspace_masked_range")
    return n_filters


@extractor
def gen_idspace(repo, out):
    tree = parse(repo, "tupimage/id_manager.py")
    exp_tree = ast.parse(EXPECTED)
    env = {}
    table = None
    soft = []
    for exp_cls in exp_tree.body:
        cls = find_class(tree, exp_cls.name)
        # decorator: @dataclass(frozen=True)  (== and hashing of spaces rely on it)
        expect(len(cls.decorator_list) == 1 and ast.unparse(cls.decorator_list[0]) == "dataclass(frozen=True)", f"{cls.name}: decorator changed")
        funcs, attrs = _members(cls)
        efuncs, eattrs = _members(exp_cls)
        if exp_cls.name == "IDSpace":
            expect("from_string" in funcs, "IDSpace.from_string missing")
            expect([ast.unparse(d) for d in funcs["from_string"].decorator_list] == ["staticmethod"], "IDSpace.from_string: decorator")
            table = _from_string_table(funcs["from_string"])
        want = set(efuncs) | {n for (c, n) in GENERIC if c == exp_cls.name}
        # private helpers (a rewrite extracted one) are tolerated: if a translated method calls one, harness/gen_pytrans.py
        # translates it as well and Props/C10tr.v must check (soft tie below); the pinned string functions cannot call one
        # without failing their own shape comparison
        extras = sorted(set(funcs) - want)
        expect(not (want - set(funcs)) and all(x.startswith("_") and not x.startswith("__") for x in extras),
               f"{cls.name}: set of methods changed: {sorted(set(funcs) ^ want)}")
        for x in extras:
            soft.append((f"{cls.name}.{x}", "private helper method that is not in the pinned set"))
        expect(list(attrs) == list(eattrs), f"{cls.name}: fields changed: {list(attrs)}")
        for name in eattrs:
            _match(attrs[name], eattrs[name], env, f"{cls.name}.{name} default")
        for name, efn in efuncs.items():
            local = {}
            try:
                _match(funcs[name], efn, local, f"{cls.name}.{name}")
            except ExtractError as e:
                # A method that harness/gen_pytrans.py TRANSLATES may be rewritten: Proofs/IdSpaceTrEq.v proves the model
                # equal to the translation of the current text, so its meaning is still tied to the model.  The literals the
                # model takes from this method then come from the last validated table (the proof is about the model with
                # exactly those).  Everything else stays fail-closed.
                if name not in TRANSLATED.get(cls.name, ()):
                    raise
                golden = _golden_constants()
                names = _placeholder_names(efn)
                missing = [k for k in names if k[2:] not in golden]
                expect(not missing, f"{e}  (and no validated value for {missing})")
                local = {k: golden[k[2:]] for k in names}
                soft.append((f"{cls.name}.{name}", str(e).splitlines()[0][:200]))
            for k, v in local.items():
                expect(k not in env, f"internal: duplicate placeholder {k}")
                env[k] = v
    n_sql = _sql_filter_sites(find_class(tree, "IDManager"))

    t = HEADER
    t += "(* integer constants of IDSubspace / IDSpace, in source order; names: see harness/gen_idspace.py *)\n"
    for k, v in env.items():
        t += f"Definition {k[2:]} : N := {v}.\n"
    t += "\n(* IDSpace.from_string: (accepted names, (color_bits, use_3rd_diacritic)) in source order *)\n"
    rows = []
    for names, cb, d in table:
        rows.append(f"({coq_list(coq_bytes(n) for n in names)}, ({cb}, {coq_bool(d)}))")
    t += "Definition from_string_table : list (list (list N) * (N * bool)) :=\n  " + coq_list(rows).replace("); (", ");\n   (") + ".\n"
    t += f"\n(* number of `{SQL_FILTER}` filters in IDManager fed with (mask, begin, end - 1) *)\n"
    t += f"Definition sql_filter_sites : N := {n_sql}.\n"
    if soft:
        t += "(* rewritten methods, covered by the translation (Proofs/IdSpaceTrEq.v); their literals are the last validated ones:\n"
        t += "".join(f"   {m}: {msg}\n" for m, msg in soft).replace("*)", "* )") + "*)\n"
        import gen_tables
        gen_tables.SOFT.append(("gen_idspace", "Props/C10tr.v", [m for m, _ in soft]))
    out.add("IdSpaceGen.v", t)
