"""C05 — inline transmissions are chunked losslessly within the command size limit.
Correspondence: Model.SendModel.send vs GraphicsCommand.send (exact sequence of out.write calls, or the
ValueError) for payloads (bytes / BytesIO / real files) x header shapes x max_size x tmux layers.
Search oracle: the clauses of the property evaluated on the implementation's writes with the Spec parsers
(TmuxSpec.unwrapn, KittyProtoSpec.parse_escape): size limit, lossless concatenation, m=1/m=0 framing,
unpadded multiple-of-4 payloads, control keys only in the first chunk, nothing written on rejection."""
import io
import os

import cmdcodec
import common
from common import hexs, unhex

GEN_DEPS = ("gen_commands", "gen_tmux", "gen_sendtrans")
EXTRA_PROPS = ("C05tr",)
ASSUMPTIONS = [
    "a seekable stream payload is its contents and read(n) returns min(n, remaining) bytes (BytesIO, regular files)",
    "coq/Spec/KittyProtoSpec.v and coq/Spec/TmuxSpec.v are the readings of the protocol format and of tmux pass-through",
]
TRUSTED = ["ocaml/drv_cmd.ml + harness/cmdcodec.py"]


def parse_spec(rep):
    """reply of cmd.spec_parse -> (dict key->bytes, payload bytes|None) or None"""
    if rep == "NONE":
        return None
    ks, p = rep.split(";")
    kv = {}
    if ks != "_":
        for item in ks.split(","):
            k, v = item.split(":")
            kv[k] = unhex(v)
    return kv, (None if p == "NOPAYLOAD" else unhex(p))


def gen_cases(ctx, tup, tlen):
    gc = tup.graphics_command
    rng = ctx.rng
    g = cmdcodec.Gen(rng, gc)
    shapes = []
    # header shapes: from empty to full
    shapes.append(([], None))
    shapes.append((["image_id"], None))
    shapes.append((["image_id", "image_number", "format", "quiet"], ["virtual", "rows", "cols"]))
    shapes.append((g.FIELDS_T[:2] + g.FIELDS_T[3:], g.FIELDS_P))
    for _ in range(ctx.pick(12, 60)):
        own = [f for f in g.FIELDS_T if f != "medium" and rng.random() < 0.5]
        shapes.append((own, [f for f in g.FIELDS_P if rng.random() < 0.5] if rng.random() < 0.5 else None))
    media = [gc.TransmissionMedium.DIRECT, None, gc.TransmissionMedium.FILE, gc.TransmissionMedium.TEMP_FILE, gc.TransmissionMedium.SHARED_MEMORY]
    for own, pl in shapes:
        for layers in range(0, 4):
            for medium in media:
                inline = medium in (gc.TransmissionMedium.DIRECT, None)
                base = g.transmit([f for f in own if f != "more"], pl, data=b"", omit_action=rng.random() < 0.1)
                base.medium = medium
                hl = len(base.header_to_bytes())
                n_sizes = ctx.pick(3, 10) if inline else 1
                for _ in range(n_sizes):
                    more = rng.choice([None, False, True])
                    cmd = base.clone_with(more=more)
                    # max_size: around the just-too-small boundary, small, medium, default
                    tl = tlen[layers]
                    boundary = tl + hl + 4 + 4  # smallest max_size that leaves room for 3 raw bytes
                    max_size = rng.choice([boundary + d for d in range(-6, 14)] + [boundary + 40, boundary + 100, boundary + 250, 700, 4096, None])
                    budget = None
                    if max_size is not None:
                        budget = max(((max_size - tl - hl - 4) // 4) * 3, 1)
                    b = budget or 3000
                    if inline:
                        ln = rng.choice([0, 1, 2, 3, b - 1, b, b + 1, 2 * b - 1, 2 * b, 2 * b + 1, 3 * b + 5, rng.randrange(0, 4 * b + 6), rng.randrange(0, 64)])
                        ln = max(0, min(ln, 70000))
                    else:
                        ln = rng.choice([0, 10, 40, 5000])
                    data = rng.randbytes(ln)
                    yield cmd, data, layers, max_size
    # exhaustive small lengths for a few shapes
    for own, pl in shapes[:ctx.pick(3, 8)]:
        for layers in (0, 1):
            for max_size in (tlen[layers] + 40, tlen[layers] + 70):
                for ln in range(0, ctx.pick(70, 200)):
                    cmd = g.transmit([f for f in own if f not in ("more", "medium")], pl, data=b"")
                    cmd.medium = rng.choice([gc.TransmissionMedium.DIRECT, None])
                    yield cmd, bytes((i * 7 + ln) % 256 for i in range(ln)), layers, max_size


def run(ctx, model):
    cov = common.Coverage("case = (header shape, medium, more, payload length, payload carrier, max_size, tmux layers); non-trivial = inline medium and more than one chunk or a rejection; distinct by hash")
    if model is None:
        return cov
    common.scrub_process_env()
    tup = common.import_impl()
    gc = tup.graphics_command
    GT = tup.graphics_terminal.GraphicsTerminal
    rng = ctx.rng
    templates = {}
    for n in range(4):
        t = GT(out_command=common.RecStream(), out_display=common.RecStream(), in_response=io.BytesIO(), in_userinput=io.BytesIO(), num_tmux_layers=n)
        templates[n] = t.get_graphics_command_template()
    cases = []
    tmpfile = os.path.join(ctx.work, "payload.bin")
    for cmd, data, layers, max_size in gen_cases(ctx, tup, {n: len(t) for n, t in templates.items()}):
        carrier = rng.choice(["bytes", "bytes", "bytesio", "file"])
        if carrier == "bytes":
            cmd.data = data
        elif carrier == "bytesio":
            cmd.data = io.BytesIO(data)
            cmd.data.seek(rng.randrange(0, len(data) + 1))
        else:
            with open(tmpfile, "wb") as f:
                f.write(data)
            cmd.data = open(tmpfile, "rb")
        out = common.RecStream()
        sent = []
        err = None
        try:
            cmd.send(out, template=templates[layers], max_size=max_size, callback=sent.append)
        except ValueError as e:
            err = "ValueError"
        finally:
            if carrier == "file":
                cmd.data.close()
        cmd.data = data
        import select
        eff_max = select.PIPE_BUF if max_size is None else max_size
        cases.append((cmd, data, layers, eff_max, carrier, out.writes, err, len(sent)))

    # GraphicsTerminal.send_command(force_direct_transmission=True): a file-name transmission (t=f / t=t) is turned into
    # an inline one carrying the file's contents — the same chunking contract applies to what is written
    forced = 0
    for cmd0, data, layers, max_size in list(gen_cases(ctx, tup, {n: len(t) for n, t in templates.items()}))[: ctx.pick(150, 1500)]:
        if max_size is None or not data:
            continue
        with open(tmpfile, "wb") as f:
            f.write(data)
        fcmd = cmd0.clone_with(medium=rng.choice([gc.TransmissionMedium.FILE, gc.TransmissionMedium.TEMP_FILE]), data=tmpfile.encode())
        out = common.RecStream()
        term = GT(out_command=out, out_display=common.RecStream(), in_response=io.BytesIO(), in_userinput=io.BytesIO(),
                  num_tmux_layers=layers, max_command_size=max_size, force_direct_transmission=True)
        err = None
        try:
            term.send_command(fcmd)
        except ValueError:
            err = "ValueError"
        equiv = fcmd.clone_with(medium=gc.TransmissionMedium.DIRECT, data=data)
        cases.append((equiv, data, layers, max_size, "forced-direct-from-file", out.writes, err, len(out.writes)))
        forced += 1
    cov.bump("forced-direct-from-file", forced)

    # the limit configured on the terminal object (GraphicsTerminal(max_command_size=...)): the same contract for what send_command writes, including the degenerate
    # limits 0, 1 and negative ones (rejected before anything is written) and None (= PIPE_BUF)
    import select as _select
    via = 0
    for cmd0, data, layers, max_size in list(gen_cases(ctx, tup, {n: len(t) for n, t in templates.items()}))[: ctx.pick(250, 2500)]:
        if cmd0.medium not in (None, gc.TransmissionMedium.DIRECT):
            continue
        if rng.random() < 0.3:
            max_size = rng.choice([0, 0, 1, 2, -1, -4096])
        cmd = cmd0.clone_with(data=data)
        out = common.RecStream()
        term = GT(out_command=out, out_display=common.RecStream(), in_response=io.BytesIO(), in_userinput=io.BytesIO(), num_tmux_layers=layers, max_command_size=max_size)
        carrier = "via-GraphicsTerminal"
        err = None
        try:
            term.send_command(cmd)
        except ValueError:
            err = "ValueError"
        cases.append((cmd, data, layers, _select.PIPE_BUF if max_size is None else max_size, carrier, out.writes, err, len(out.writes)))
        via += 1
    cov.bump("limit-configured-on-terminal", via)

    reqs = []
    for cmd, data, layers, eff_max, carrier, writes, err, nsent in cases:
        reqs.append(f"cmd.send {layers} {eff_max} " + " ".join(cmdcodec.tokens(gc, cmd)))
    reps = model.batch(reqs)
    # Spec parse of every written escape (after removing the tmux layers)
    preqs, pidx = [], []
    for ci, (cmd, data, layers, eff_max, carrier, writes, err, nsent) in enumerate(cases):
        for w in writes:
            preqs.append(f"c11.spec_unwrapn {layers} {hexs(w)}")
            pidx.append(ci)
    unwrapped = model.batch(preqs)
    parsed = model.batch([f"cmd.spec_parse {u}" if u != "NONE" else "cmd.spec_parse -" for u in unwrapped])
    per_case = {}
    for ci, u, p in zip(pidx, unwrapped, parsed):
        per_case.setdefault(ci, []).append((u, parse_spec(p)))

    for ci, (cmd, data, layers, eff_max, carrier, writes, err, nsent) in enumerate(cases):
        rep = reps[ci]
        medium = "absent" if cmd.medium is None else cmd.medium.value
        inline = medium in ("absent", "d")
        case = {"tokens": cmdcodec.tokens(gc, cmd)[:3] + ["<data %d bytes>" % len(data)] + cmdcodec.tokens(gc, cmd)[5:], "layers": layers, "max_size": eff_max,
                "carrier": carrier, "medium": medium, "more": cmd.more, "len": len(data)}
        klass = f"{medium}/n={layers}/" + ("rejected" if err else ("1-chunk" if len(writes) == 1 else "2-chunks" if len(writes) == 2 else "3+chunks"))
        cov.add(case, nontrivial=inline and (err is not None or len(writes) > 1), klass=klass)
        # correspondence
        if err:
            if rep != "ERROR" or writes:
                ctx.corr_breaks.append({"what": "implementation rejects (or wrote before rejecting), model does not agree", "case": case, "model": rep[:200], "impl_writes": len(writes)})
        else:
            mw = [] if rep in ("EMPTY",) else ([unhex(x) for x in rep.split(",")] if rep != "ERROR" else None)
            if mw != writes:
                ctx.corr_breaks.append({"what": "sequence of writes differs from Model.SendModel.send", "case": case,
                                        "impl": [hexs(w)[:120] for w in writes[:4]], "model": rep[:400], "impl_n": len(writes), "model_n": None if mw is None else len(mw)})
            if nsent != len(writes):
                ctx.corr_breaks.append({"what": "callbacks != writes", "case": case})
        # Spec oracle on the implementation's writes
        full_case = {"kind": "send", "tokens": cmdcodec.tokens(gc, cmd), "layers": layers, "max_size": eff_max}
        if err:
            continue
        chunks = per_case.get(ci, [])
        problems = []
        if inline:
            for i, w in enumerate(writes):
                if len(w) > eff_max:
                    problems.append(("chunk-over-limit", f"write {i} has {len(w)} bytes > max_size {eff_max}"))
                    break
        if any(p is None for _, p in chunks):
            problems.append(("chunk-does-not-parse", "a written escape does not unwrap/parse by the protocol format"))
        elif inline:
            payloads = [p[1] for _, p in chunks]
            if any(x is None for x in payloads) or b"".join(payloads) != data:
                problems.append(("lossy", "decoded payloads concatenated differ from the data"))
            for i, (u, (kv, pl)) in enumerate(chunks):
                last = i == len(chunks) - 1
                raw = unhex(u)
                b64 = raw[3:-2].split(b";", 1)[1] if b";" in raw else b""
                if not last:
                    if kv.get("m") != b"1":
                        problems.append(("framing", f"chunk {i} is not last but has m={kv.get('m')}"))
                    if len(b64) % 4 != 0 or b"=" in b64 or len(b64) == 0:
                        problems.append(("framing", f"chunk {i} is not last but its payload is padded/empty/not a multiple of 4"))
                else:
                    want = b"1" if cmd.more is True else b"0"
                    if kv.get("m", b"0") != want:  # an absent m key means m=0 in the protocol
                        problems.append(("framing", f"last chunk has m={kv.get('m')}, expected {want}"))
                if i > 0:
                    if not set(kv) <= {"i", "I", "m"}:
                        problems.append(("framing", f"continuation chunk {i} carries keys {sorted(kv)}"))
                    for k in ("i", "I"):
                        if kv.get(k) != chunks[0][1][0].get(k):
                            problems.append(("framing", f"continuation chunk {i} has {k}={kv.get(k)} but the first chunk has {chunks[0][1][0].get(k)}"))
            # first chunk carries all control keys of the command (checked with the Spec's expected table through conforms)
        for klass_, msg in problems[:1]:
            ctx.violations.append({"signature": {"class": klass_, "medium": medium}, "what": msg, "case": dict(full_case, data=hexs(data) if len(data) <= 4096 else None, data_len=len(data), data_seed_note="data = the t_data token")})
    # should the tree make the limit assignable on a live TupimageTerminal, an assignment must act like construction with it
    import c08_cli
    c08_cli.reconfigure_equivalence(ctx, cov, ctx.pick(12, 60), must_change=["max_command_size"])
    return cov


def replay(ctx, model, rec):
    """Re-run one send case on the implementation and evaluate the size clause + lossless clause."""
    if rec.get("case", {}).get("kind") == "reconfigure":
        import c08_cli
        n0 = len(ctx.violations)
        c0 = rec["case"]
        c08_cli.reconfigure_equivalence(ctx, common.Coverage("replay"), 60, must_change=sorted(k for k in c0["after"] if c0["after"][k] != c0["before"].get(k))[:1] or None)
        mine = ctx.violations[n0:]
        del ctx.violations[n0:]
        return {"violates": bool(mine), "violations": [v["what"] for v in mine][:3]}
    case = rec["case"]
    tup = common.import_impl()
    gc = tup.graphics_command
    toks = case["tokens"]
    # rebuild the command from its tokens (transmit only)
    def opt(s, f=int):
        return None if s == "_" else f(s)
    assert toks[0] == "T"
    med = {"_": None, "d": gc.TransmissionMedium.DIRECT, "f": gc.TransmissionMedium.FILE, "t": gc.TransmissionMedium.TEMP_FILE, "s": gc.TransmissionMedium.SHARED_MEMORY}[toks[3]]
    data = unhex(toks[4])
    pl = None
    if toks[15] == "P":
        p = toks[16:25]
        pl = gc.PlacementData(placement_id=opt(p[0]), virtual=opt(p[1], lambda s: s == "1"), rows=opt(p[2]), cols=opt(p[3]), do_not_move_cursor=opt(p[4], lambda s: s == "1"),
                              src_x=opt(p[5]), src_y=opt(p[6]), src_w=opt(p[7]), src_h=opt(p[8]))
    cmd = gc.TransmitCommand(image_id=opt(toks[1]), image_number=opt(toks[2]), medium=med, data=data, size=opt(toks[5]), offset=opt(toks[6]),
                             quiet=opt(toks[7], lambda s: gc.Quietness(int(s))), more=opt(toks[8], lambda s: s == "1"), format=opt(toks[9], lambda s: gc.Format(int(s))),
                             compression=opt(toks[10], lambda s: gc.Compression.ZLIB), pix_width=opt(toks[11]), pix_height=opt(toks[12]),
                             query=opt(toks[13], lambda s: s == "1"), omit_action=toks[14] == "1", placement=pl)
    GT = tup.graphics_terminal.GraphicsTerminal
    t = GT(out_command=common.RecStream(), out_display=common.RecStream(), in_response=io.BytesIO(), in_userinput=io.BytesIO(), num_tmux_layers=case["layers"])
    out = common.RecStream()
    try:
        cmd.send(out, template=t.get_graphics_command_template(), max_size=case["max_size"])
    except ValueError:
        return {"violates": False, "note": "rejected"}
    sizes = [len(w) for w in out.writes]
    inline = med in (None, gc.TransmissionMedium.DIRECT)
    over = inline and any(s > case["max_size"] for s in sizes)
    return {"violates": bool(over), "write_sizes": sizes[:10], "max_size": case["max_size"]}
