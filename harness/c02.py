"""C02 — ID assignments are stable and recycled only least-recently-used first.
See idm_common.py for the correspondence set-up.  Oracle: the clauses of the property evaluated on consecutive
table dumps of the real database (independent of the model)."""
import idm_common as ic
import common

GEN_DEPS = ("gen_idmanager", "gen_idspace")
ASSUMPTIONS = [
    "sqlite executes each statement of IDManager as the model's table functions describe (compared after every operation)",
    "the environment's nondeterminism (row returned by fetchone, secrets.choice, order among equal atimes, gen_random_id samples) is an explicit choice argument; the theorems hold for every choice",
]
TRUSTED = ["patched clock / secrets / gen_random_id wrapper (harness/idm_common.py)", "ocaml/drv_idm.ml"]


def rows_of(st, name, idm_filter):
    return [r for r in st.get(name, []) if idm_filter(r[0])]


def oracle_step(tup, s, toks):
    """Returns list of (class, message) violations of C01/C02 clauses for one executed step."""
    idm = tup.id_manager
    out = []
    pre, post = s["pre"], s["post"]
    if s["op"] == "get_id":
        name = s["space"]
        sp = idm.IDSpace(int(name.split(".")[0]), name.endswith(".1"))
        sub = idm.IDSubspace(*s["sub"])
        flt = lambda i: ic.in_filter(idm, sp, sub, i)
        d = toks.tok(s["desc"])
        now = s["now"]
        pre_in = rows_of(pre, name, flt)
        post_rows = {r[0]: r for r in post.get(name, [])}
        others_changed = any(pre.get(k, []) != post.get(k, []) for k in set(pre) | set(post) if k != name)
        kind, rid = s["result"]
        hits = [r for r in pre_in if r[1] == d]
        size = sp.subspace_size(sub)
        enumerable = size <= min(1024, s["max_ids"])
        if kind == "ID":
            # clause 2: maps back
            if post_rows.get(rid) != (rid, d, now):
                out.append(("result-does-not-map-back", f"get_id returned {rid} but the table row is {post_rows.get(rid)} (expected description token {d}, atime {now})"))
            # C01: membership
            if not (0 < rid < 2**32) or not flt(rid) or idm.IDSpace.from_id(rid) != sp:
                out.append(("id-outside-requested-subspace", f"get_id returned {rid}, not a member of space {name} subspace {s['sub']}"))
        if hits:
            ok = kind == "ID" and rid in [h[0] for h in hits]
            rest_same = ok and [r for r in pre.get(name, []) if r[0] != rid] == [r for r in post.get(name, []) if r[0] != rid]
            if not ok or not rest_same or others_changed:
                out.append(("hit-not-stable", f"description already had id(s) {[h[0] for h in hits]} in the subspace but get_id gave {s['result']} / changed other rows"))
        else:
            pre_ids = {r[0] for r in pre.get(name, [])}
            dropped = [r for r in pre.get(name, []) if r[0] not in post_rows or post_rows[r[0]][1] != r[1]]
            if others_changed:
                out.append(("other-table-touched", "get_id changed a table of another space"))
            if enumerable and len(pre_in) < size:
                if dropped or kind != "ID" or rid in pre_ids:
                    out.append(("displaced-while-free", f"a free id existed ({len(pre_in)} of {size} used) but rows {dropped[:3]} were displaced (get_id: {kind} {rid})"))
            elif enumerable:
                if kind != "ID" or len(dropped) != 1 or dropped[0][0] != rid:
                    out.append(("full-recycle-not-exactly-one", f"full subspace: dropped {dropped[:4]}, result {s['result']}"))
                else:
                    v = dropped[0]
                    if not flt(v[0]) or any(r[2] < v[2] for r in pre_in):
                        out.append(("recycled-not-lru", f"recycled row {v} is not least recently used in the subspace / not in the subspace"))
            else:
                first8 = s["samples"][:8]
                if any(x not in pre_ids for x in first8) and (dropped or kind != "ID"):
                    out.append(("displaced-while-free", f"one of the first samples {first8} was free but rows {dropped[:3]} were dropped"))
                # whatever was dropped: only LRU rows of the subspace
                kept_in = [r for r in pre_in if r not in dropped]
                for v in dropped:
                    if not flt(v[0]):
                        out.append(("dropped-outside-subspace", f"row {v} outside the requested subspace was dropped"))
                        break
                    if v[0] != rid and any(r[2] < v[2] for r in kept_in):
                        out.append(("cleanup-not-lru", f"row {v} was dropped while an older row of the subspace was kept"))
                        break
    elif s["op"] == "cleanup":
        name = s["space"]
        sp = idm.IDSpace(int(name.split(".")[0]), name.endswith(".1"))
        sub = idm.IDSubspace(*s["sub"])
        flt = lambda i: ic.in_filter(idm, sp, sub, i)
        pre_in = rows_of(pre, name, flt)
        post_set = set(post.get(name, []))
        dropped = [r for r in pre.get(name, []) if r not in post_set]
        kept_in = [r for r in pre_in if r in post_set]
        if any(pre.get(k, []) != post.get(k, []) for k in set(pre) | set(post) if k != name) or set(post.get(name, [])) - set(pre.get(name, [])):
            out.append(("other-table-touched", "cleanup changed rows outside the requested table / added rows"))
        if any(not flt(v[0]) for v in dropped):
            out.append(("dropped-outside-subspace", "cleanup dropped a row outside the requested subspace"))
        if len(kept_in) != min(len(pre_in), max(s["max"], 0)):
            out.append(("cleanup-wrong-count", f"cleanup kept {len(kept_in)} of {len(pre_in)} rows with max {s['max']}"))
        if dropped and kept_in and max(v[2] for v in dropped) > min(r[2] for r in kept_in):
            out.append(("cleanup-not-lru", "cleanup dropped a row that is more recent than a kept one"))
    elif s["op"] == "query":
        name = s["space"]
        sp = idm.IDSpace(int(name.split(".")[0]), name.endswith(".1"))
        sub = idm.IDSubspace(*s["sub"])
        flt = lambda i: ic.in_filter(idm, sp, sub, i)
        live = sorted(rows_of(pre, name, flt))
        if sorted(s["listing"]) != live or s["count"] != len(live):
            out.append(("listing-not-exact", f"get_all/count report {len(s['listing'])}/{s['count']} rows, live rows in range: {len(live)}"))
        times = [r[2] for r in s["listing"]]
        if any(a < b for a, b in zip(times, times[1:])):
            out.append(("listing-not-most-recent-first", "get_all is not sorted most recent first"))
        for i, inf in s["infos"].items():
            row = [r for r in pre.get(name, []) if r[0] == i]
            if not row or inf != (row[0][1], row[0][2]):
                out.append(("get-info-wrong", f"get_info({i}) = {inf}, table row {row}"))
    elif s["op"] in ("set_id", "del_id"):
        i = s["id"]
        valid = 0 < i < 2**32
        if s["result"] != valid:
            out.append(("invalid-id-handling", f"{s['op']}({i}) accepted={s['result']}"))
        if valid:
            name = ic.sp_name(idm.IDSpace.from_id(i))
            want = [r for r in pre.get(name, []) if r[0] != i]
            if s["op"] == "set_id":
                want = sorted(want + [(i, toks.tok(s["desc"]), s["now"])])
            if post.get(name, []) != want or any(pre.get(k, []) != post.get(k, []) for k in set(pre) | set(post) if k != name):
                out.append(("set-del-not-exact", f"{s['op']}({i}) changed more or less than its own row"))
    return out


def run_histories(ctx, model, cov, prop_classes=None):
    common.scrub_process_env()
    tup = common.import_impl()
    n = ctx.pick(700, 10000)
    hs = []
    for i in range(n):
        hs.append(ic.random_history(ctx, tup, i, cov, large=(i % 3 == 2)))
    reqs, idx = [], []
    for hi, h in enumerate(hs):
        for si, s in enumerate(h.steps):
            if s.get("req"):
                reqs.append(s["req"])
                idx.append((hi, si))
    reps = model.batch(reqs)
    bad = 0
    for (hi, si), rep in zip(idx, reps):
        s = hs[hi].steps[si]
        if rep != s["expect"] and bad < 25:
            bad += 1
            ctx.corr_breaks.append({"what": f"{s['op']}: implementation result/tables differ from Model.IdManager", "request": s["req"][:1500], "impl": s["expect"][:800], "model": rep[:800]})
    for hi, h in enumerate(hs):
        branches = []
        for s in h.steps:
            klass = s["op"]
            if s["op"] == "get_id":
                idm = tup.id_manager
                name = s["space"]
                sp = idm.IDSpace(int(name.split(".")[0]), name.endswith(".1"))
                sub = idm.IDSubspace(*s["sub"])
                pre_in = [r for r in s["pre"].get(name, []) if ic.in_filter(idm, sp, sub, r[0])]
                d = h.toks.tok(s["desc"])
                size = sp.subspace_size(sub)
                if any(r[1] == d for r in pre_in):
                    klass = "get_id:hit"
                elif size <= min(1024, s["max_ids"]):
                    klass = "get_id:recycle-full" if len(pre_in) >= size else "get_id:free-pick"
                else:
                    ns = len(s["samples"])
                    klass = "get_id:sample" + ("-1st-round" if ns <= 8 else f"-after-{(ns - 1) // 8}-cleanups") + ("" if s["result"][0] == "ID" else "-FAILED")
            cov.bump(klass)
            branches.append(klass)
            for vc, msg in oracle_step(tup, s, h.toks):
                if prop_classes is None or vc in prop_classes:
                    ctx.violations.append({"signature": {"class": vc}, "what": msg,
                                           "case": {"kind": "step", "request": s.get("req"), "observed": s["expect"][:600]}})
        cov.add([(s.get("req") or s["op"])[:80] for s in h.steps[:12]], nontrivial=any(b.startswith("get_id:recycle") or "cleanups" in b or b == "cleanup" for b in branches),
                klass="history/" + ("large" if hi % 3 == 2 else "enumerable"))
    # the float clean-up targets equal the exact ones for every reachable large subspace size
    idm = tup.id_manager
    sizes = set()
    for sp in idm.IDSpace.all_values():
        for b in range(0, 256):
            for e in (b + 1, b + 2, 256, min(256, b + 17)):
                if b < e <= 256 and e != 1:
                    sizes.add(sp.subspace_size(idm.IDSubspace(b, e)))
    for sz in sizes:
        for f, (nu, de) in ((0.75, (3, 4)), (0.6, (3, 5)), (0.5, (1, 2))):
            if int(sz * f) != (sz * nu) // de:
                ctx.corr_breaks.append({"what": "int(size*frac) differs from the exact floor used by the model", "size": sz, "frac": f})
    cov.bump("float-floor-sizes-checked", len(sizes))
    return hs


C02_CLASSES = {"result-does-not-map-back", "hit-not-stable", "other-table-touched", "displaced-while-free", "full-recycle-not-exactly-one", "recycled-not-lru",
               "dropped-outside-subspace", "cleanup-not-lru", "cleanup-wrong-count", "listing-not-exact", "listing-not-most-recent-first", "get-info-wrong",
               "invalid-id-handling", "set-del-not-exact"}


def highlevel_recency(ctx, cov):
    """The requests a user makes — TupimageTerminal.assign_id / upload — from TWO terminal objects (and a force-set now and
    then) on one session database with a small subspace: every request refreshes the recency of the id it returns (its
    row is the most recent one afterwards), returns the same id for the same image while it is assigned, and whatever it
    evicts is the least recently used assignment of the subspace."""
    import os
    work = ctx.work
    rng = ctx.rng
    hists = []
    for _ in range(ctx.pick(25, 250)):
        hists.append({"sub": rng.choice(["10:13", "10:14", "200:203"]), "steps": [(rng.randrange(2), rng.randrange(6), rng.random() < 0.1) for _ in range(rng.randrange(6, 16))]})

    def child():
        common.scrub_process_env()
        os.environ["HOME"] = work
        os.environ["XDG_STATE_HOME"] = os.path.join(work, "state")
        os.environ["XDG_CONFIG_HOME"] = os.path.join(work, "config")
        import sqlite3
        import tupimage
        import tupimage.id_manager as idm
        from PIL import Image
        from c04 import Clock, from_us, install_clock

        class AutoClock(Clock):
            def now(self):
                self.now_us += 1000
                return from_us(self.now_us)
        clock = AutoClock()
        clock.now_us = 10**9
        install_clock(idm, clock)
        tty_in = open("/dev/tty", "rb", buffering=0)
        imgs = []
        for i in range(6):
            p = os.path.join(work, f"c02-hl-{i}.png")
            Image.new("RGB", (3 + i, 3), (i * 30, 5, 5)).save(p)
            imgs.append(p)
        out = []
        for hi, h in enumerate(hists):
            db = os.path.join(work, f"c02-hl-{os.getpid()}-{hi}.db")
            terms = [tupimage.TupimageTerminal(out_command=common.RecStream(), out_display=common.RecStream(), in_response=tty_in, id_database=db, config="DEFAULT",
                                               id_space="8bit", id_subspace=h["sub"], upload_method="direct", redetect_terminal=False, terminal_id=f"T{k}", session_id="S")
                     for k in range(2)]
            conn = sqlite3.connect(db)

            def table():
                return sorted(conn.execute("SELECT id, description, atime FROM ids_8bit").fetchall())
            log = []
            for (ti, ii, forced) in h["steps"]:
                before = table()
                try:
                    if forced:
                        b, e = (int(x) for x in h["sub"].split(":"))
                        inst = terms[ti].assign_id(imgs[ii], cols=1, rows=1, force_id=b + ii % (e - b))
                    else:
                        inst = terms[ti].assign_id(imgs[ii], cols=1, rows=1)
                    rid = inst.id
                except Exception as e_:  # noqa: BLE001
                    rid = "EXC:" + type(e_).__name__
                log.append([ti, ii, forced, rid, before, table()])
            conn.close()
            for t in terms:
                t.id_manager.close()
            os.remove(db)
            out.append(log)
        return out

    r = common.in_pty(child, timeout=600)
    if "ok" not in r:
        ctx.corr_breaks.append({"what": "two-terminal recency histories failed in the pty sandbox", "error": {k: v for k, v in r.items() if k != "tty"}})
        return
    for h, log in zip(hists, r["ok"]):
        cov.add({"highlevel": h["sub"], "steps": h["steps"][:8]}, klass="highlevel/two-terminals")
        holder = {}
        import datetime as _dt
        for si, (ti, ii, forced, rid, before, after) in enumerate(log):
            before = [(a, b, _dt.datetime.fromisoformat(c)) for a, b, c in before]
            after = [(a, b, _dt.datetime.fromisoformat(c)) for a, b, c in after]
            what = None
            if isinstance(rid, str):
                what = f"the request raised {rid}"
            else:
                rows = {r_[0]: r_ for r_ in after}
                if rid not in rows:
                    what = f"the returned id {rid} is not assigned afterwards"
                elif any(r_[2] >= rows[rid][2] for r_ in after if r_[0] != rid):
                    what = f"the returned id {rid} is not the most recently used assignment afterwards (recency not refreshed): {after}"
                else:
                    held = [r_[0] for r_ in before if r_[1] == rows[rid][1]]
                    if not forced and held and rid not in held:
                        what = f"the image already held id(s) {held} but the request returned {rid}"
                    gone = [r_ for r_ in before if r_[0] not in rows or rows[r_[0]][1] != r_[1]]
                    if not forced and what is None and gone:
                        kept = [r_ for r_ in before if r_ not in gone]
                        if len(gone) > 1 or any(k_[2] < gone[0][2] for k_ in kept):
                            what = f"the request displaced {gone} although an older assignment was kept ({kept})"
            if what:
                ctx.violations.append({"signature": {"class": "recycled-not-lru" if "displaced" in what else "hit-not-stable", "path": "high-level"},
                                       "what": f"two TupimageTerminal objects on one database, subspace {h['sub']}, step {si} (terminal {ti}, image {ii}{', force_id' if forced else ''}): {what}",
                                       "case": {"kind": "step", "request": None, "observed": str(log[max(0, si - 2):si + 1])[:600]}})
                break


def run(ctx, model):
    cov = common.Coverage("case = one history (random get_id / set_id / del_id / cleanup / get_all+count+get_info operations on 1-3 (space, subspace) pairs of one database; every third history uses a subspace too large to enumerate with forced sample collisions); non-trivial = contains a full-subspace recycle, a clean-up or a sampling round after a clean-up; distinct by hash of the first operations")
    if model is None:
        return cov
    run_histories(ctx, model, cov, C02_CLASSES)
    highlevel_recency(ctx, cov)
    return cov


def replay(ctx, model, rec):
    case = rec["case"]
    if not case.get("request"):
        return {"violates": False, "note": "re-run the check with the same seed to replay the high-level history", "observed": case.get("observed")}
    rep = model.one(case["request"])
    return {"violates": False, "model_says": rep[:500], "observed": case.get("observed"), "note": "re-run the check with the same seed to replay the history on the implementation"}
