"""C13 — each placeholder line is self-contained and leaves text attributes reset.

Correspondence: to_lines / to_stream with every kind of formatting (None, bytes, RowFormatting,
CellFormatting; background sequences and arbitrary bytes), rectangles including rows >= 297 (the
blank-row branch), all 160 modes; TupimageTerminal.get_formatting for "none", colour names,
"#rrggbb" and 0..255 against Model.get_formatting.
Spec oracle (extracted Spec terminal + decoder on the implementation's bytes):
  * every line starts and ends with the reset token;
  * after each line alone, foreground / underline / background are default;
  * every subset of the lines (all 2^h for h <= 6, random subsets and reorderings above), printed one
    per screen line through ONLCR on screens of height 1, 2, 5, 24, decodes row-wise to the right cells;
  * after a complete to_stream output the attributes are default and no cell outside the rectangle
    has a non-default background."""
import itertools
import os

import common
import placeholder_common as pc
from common import hexs, unhex
from c07 import byte_class_id, gen_rect, pick_screen

GEN_DEPS = ("gen_placeholder",)
EXTRA_PROPS = ()
ASSUMPTIONS = [
    "terminal and decoder as in C07 (coq/Spec/TermSpec.v, coq/Spec/PlaceholderSpec.v); CSI s / CSI u save and restore the SGR state as in xterm/kitty",
    "formatting is restricted to SGR background sequences (48;5;n, 48;2;r;g;b) in the theorems and the oracle; arbitrary formatting bytes are compared byte-for-byte only",
    "lines shown alone: each line followed by LF, written to a tty with ONLCR (head/tail/grep/cat), cursor initially in column 0",
    "Pillow's ImageColor.getrgb is not modelled: colour names are resolved by it on both sides",
]
TRUSTED = ["ocaml/drv_c07.ml"]

RESET = b"\033[0m"


def gen_case(rng, mode, api, blank_rows):
    c0, r0, c1, r1 = gen_rect(rng, blank_rows_ok=blank_rows)
    if blank_rows and r1 <= 297:
        r1 = rng.choice([298, 299, 300])
        r0 = max(0, min(r0, r1 - 1))
        if r1 - r0 > 8:
            r0 = r1 - rng.randrange(1, 8)
    if c1 - c0 > 14 and rng.random() < 0.8:
        c1 = c0 + rng.randrange(1, 12)
    bg_only = rng.random() < 0.85
    style = rng.choice(pc.STYLES)
    use_save, use_lf = {"sr": (True, False), "rel": (False, False), "lf": (rng.random() < 0.5, True), "abs": (True, False)}[style]
    return {
        "api": api, "id": byte_class_id(rng), "pid": rng.choice([0, 0, 1, 255, 256, 2**24 - 1, rng.randrange(2**24)]),
        "c0": c0, "r0": r0, "c1": c1, "r1": r1, "mode": list(mode), "fmt": pc.gen_fmt(rng, bg_only=bg_only, allow_none=True),
        "style": style, "use_save": use_save, "use_lf": use_lf,
        "pos": [rng.choice([0, 1, 5]), rng.choice([0, 1, 3])] if style == "abs" else None, "no_escape": False,
    }


def expected_selected(c, sel, W, H, y0):
    n = len(sel)
    sc = max(0, y0 + n + 1 - H)
    exp = {}
    for k, i in enumerate(sel):
        y = y0 + k - sc
        r = c["r0"] + i
        if y < 0 or r >= pc.TABLE_LEN:
            continue
        for col in range(c["c0"], c["c1"]):
            exp[(y, col - c["c0"])] = (c["id"], c["pid"], r, col)
    return exp


def selections(rng, h, thorough):
    if h <= 6:
        sels = [list(s) for k in range(1, h + 1) for s in itertools.combinations(range(h), k)]
        if not thorough and len(sels) > 12:
            sels = rng.sample(sels, 12)
    else:
        sels = []
        for _ in range(6 if not thorough else 20):
            k = rng.randrange(1, h + 1)
            sels.append(sorted(rng.sample(range(h), k)))
    # reorderings / repetitions
    for _ in range(2):
        s = [rng.randrange(h) for _ in range(rng.randrange(1, h + 2))]
        sels.append(s)
    sels.append(list(reversed(range(h))))
    return sels


def row_class(c, i):
    return "blank-row(>=297)" if c["r0"] + i >= pc.TABLE_LEN else "image-row"


def check_lines(ctx, model, cov, c, lines):
    """Spec-side checks on the lines the implementation returned for case c (background-only formatting)."""
    rng = ctx.rng
    w, h = c["c1"] - c["c0"], c["r1"] - c["r0"]
    reqs, meta = [], []
    W = w + rng.choice([0, 1, 3])
    # (a) each line alone, from a dirty-free blank screen: attributes afterwards, and its decoding
    for i, line in enumerate(lines):
        if not (line.startswith(RESET) and line.endswith(RESET)):
            ctx.violations.append({"signature": {"class": "line-shape", "row_class": row_class(c, i)},
                                   "what": f"line {i} (row {c['r0'] + i}) does not start and end with ESC[0m",
                                   "case": {"kind": "lines", "case": c, "line": i}, "impl_line": hexs(line)[:400]})
        reqs.append(pc.render_request(W, 2, 0, 0, True, line + b"\n"))
        meta.append(("alone", i, None))
    # (b) subsets / reorderings
    for sel in selections(rng, h, not ctx.quick()):
        H = rng.choice([1, 2, 5, 24])
        y0 = rng.randrange(H)
        data = b"".join(lines[i] + b"\n" for i in sel)
        reqs.append(pc.render_request(W, H, 0, y0, True, data))
        meta.append(("subset", sel, (H, y0)))
    reps = model.batch(reqs)
    for (kind, arg, scr), rep in zip(meta, reps):
        r = pc.parse_render(rep)
        if kind == "alone":
            i = arg
            cov.bump(f"oracle/line-alone/{row_class(c, i)}")
            if r["sgr"] != ("D", "D", "D"):
                ctx.violations.append({"signature": {"class": "attrs-not-reset-after-line", "row_class": row_class(c, i)},
                                       "what": f"after line {i} (row {c['r0'] + i}) alone the terminal's fg/underline/bg are {r['sgr']}, not default",
                                       "case": {"kind": "lines", "case": c, "line": i}, "impl_line": hexs(lines[i])[:400]})
            exp = expected_selected(c, [i], W, 2, 0)
            d = pc.first_diff(exp, r["cells"])
            if d is not None:
                ctx.violations.append({"signature": {"class": "line-alone-decode", "row_class": row_class(c, i)},
                                       "what": f"line {i} shown alone: {d}", "case": {"kind": "lines", "case": c, "line": i}})
        else:
            sel, (H, y0) = arg, scr
            cov.bump(f"oracle/subset/H={H}/{'scrolls' if y0 + len(sel) + 1 > H else 'fits'}")
            exp = expected_selected(c, sel, W, H, y0)
            d = pc.first_diff(exp, r["cells"])
            if d is not None or r["sgr"] != ("D", "D", "D"):
                blank = any(c["r0"] + i >= pc.TABLE_LEN for i in sel)
                ctx.violations.append({"signature": {"class": "subset-decode" if d is not None else "attrs-not-reset-after-subset",
                                                     "row_class": "blank-row(>=297)" if blank else "image-row"},
                                       "what": f"lines {sel} shown alone on a {W}x{H} screen from row {y0}: {d}, attributes afterwards {r['sgr']}",
                                       "case": {"kind": "subset", "case": c, "sel": sel, "W": W, "H": H, "y0": y0}})


def check_stream(ctx, model, cov, c, writes):
    rng = ctx.rng
    scr = pick_screen(rng, c)
    if scr is None:
        return
    rep = model.one(pc.render_request(scr["W"], scr["H"], scr["cur"][0], scr["cur"][1], c["style"] == "lf", b"".join(writes)))
    r = pc.parse_render(rep)
    h = c["r1"] - c["r0"]
    blank = c["r1"] > pc.TABLE_LEN
    cov.bump(f"oracle/stream/{c['style']}/{'with-blank-rows' if blank else 'image-rows'}")
    exp = pc.expected_cells(c, scr["W"], scr["H"], scr["x0"], scr["y0"], scrolls=c["style"] != "abs")
    s = max(0, scr["y0"] + h - scr["H"]) if c["style"] != "abs" else 0
    rect = {(scr["y0"] - s + k, scr["x0"] + j) for k in range(h) for j in range(c["c1"] - c["c0"])}
    bad = None
    d = pc.first_diff(exp, r["cells"])
    if d is not None:
        bad = ("stream-decode", f"{d}")
    elif r["sgr"] != ("D", "D", "D"):
        bad = ("attrs-not-reset-after-stream", f"fg/underline/bg after the complete output are {r['sgr']}")
    else:
        outside = [k for k in r["bg"] if k not in rect]
        if outside:
            bad = ("bg-outside-rectangle", f"cell (y,x)={outside[0]} outside the rectangle has background {r['bg'][outside[0]]}")
    if bad:
        ctx.violations.append({"signature": {"class": bad[0], "style": c["style"], "row_class": "blank-row(>=297)" if blank else "image-row"},
                               "what": f"style {c['style']}: {bad[1]}", "case": {"kind": "stream", "case": c, "screen": scr}})


BACKGROUNDS = ["none", "None", "NONE", "red", "black", "white", "#000000", "#ffffff", "#12ab34", "rgb(1,2,3)", "hsl(120,100%,50%)", 0, 1, 7, 15, 16, 231, 255]


def check_get_formatting(ctx, model, cov, tup):
    from PIL import ImageColor

    rng = ctx.rng
    bgs = list(BACKGROUNDS) + [0, 1, 255] + [rng.randrange(256) for _ in range(ctx.pick(10, 256))] + ["#%06x" % rng.randrange(2**24) for _ in range(ctx.pick(10, 300))]

    def child():
        common.scrub_process_env()
        os.environ["HOME"] = ctx.work
        os.environ["XDG_STATE_HOME"] = os.path.join(ctx.work, "state")
        os.environ["XDG_CONFIG_HOME"] = os.path.join(ctx.work, "config")
        import tupimage
        # two terminals: the configured default background is "none" for one and palette colour 7 for the other — an explicit
        # per-call background (0 and the empty byte string included) wins over either
        tty_in = open("/dev/tty", "rb", buffering=0)
        t = tupimage.TupimageTerminal(out_command=common.RecStream(), out_display=common.RecStream(), in_response=tty_in,
                                      id_database=os.path.join(ctx.work, "c13.db"))
        t7 = tupimage.TupimageTerminal(out_command=common.RecStream(), out_display=common.RecStream(), in_response=tty_in,
                                       id_database=os.path.join(ctx.work, "c13.db"), config="DEFAULT", background=7)
        out = []
        for bg in bgs:
            f = t.get_formatting(bg)
            f7 = t7.get_formatting(bg)
            out.append(("N" if f is None else "B:" + hexs(f)) + "|" + ("N" if f7 is None else "B:" + hexs(f7)))
        raw = [b"", b"\x1b[48;5;9m"]
        rawres = [[("N" if x.get_formatting(b) is None else hexs(x.get_formatting(b))) for x in (t, t7)] for b in raw]
        out.append(rawres)
        # the configured default is used for None
        out.append("N" if t.get_formatting(None) is None else "B:" + hexs(t.get_formatting(None)))
        return out

    r = common.in_pty(child)
    if "ok" not in r:
        ctx.corr_breaks.append({"what": "TupimageTerminal.get_formatting failed in the pty sandbox", "error": {k: v for k, v in r.items() if k != "tty"}})
        return
    reqs = []
    for bg in bgs:
        if isinstance(bg, int):
            reqs.append(f"c13.get_formatting int:{bg}")
        elif bg.lower() == "none":
            reqs.append("c13.get_formatting none")
        else:
            rgb = ImageColor.getrgb(bg)
            reqs.append("c13.get_formatting rgb:%d,%d,%d" % rgb[:3])
    reps = model.batch(reqs)
    rawres = r["ok"][len(bgs)]
    for b_, pair in zip([b"", b"\x1b[48;5;9m"], rawres):
        cov.add({"get_formatting": "bytes", "value": hexs(b_)}, klass="get_formatting/bytes")
        if any(x != hexs(b_) for x in pair):
            ctx.violations.append({"signature": {"class": "get_formatting-wrong-background"},
                                   "what": f"get_formatting({b_!r}) (formatting bytes given by the caller) returns {pair} on terminals configured with background none / 7", "case": {"kind": "get_formatting", "bg": hexs(b_)}})
    r["ok"] = [x for i, x in enumerate(r["ok"]) if i != len(bgs)]
    for bg, got2, rep in zip(bgs, r["ok"], reps):
        got, got7 = got2.split("|")
        if isinstance(bg, int):
            want = "B:" + hexs(b"\x1b[48;5;%dm" % bg)
        elif bg.lower() == "none":
            want = "N"
        else:
            want = "B:" + hexs(b"\x1b[48;2;%d;%d;%dm" % ImageColor.getrgb(bg)[:3])
        if got != want or got7 != want:
            ctx.violations.append({"signature": {"class": "get_formatting-wrong-background"},
                                   "what": f"get_formatting({bg!r}) is {got} / {got7} (terminal configured with background none / 7); the background asked for is {want}",
                                   "case": {"kind": "get_formatting", "bg": bg}})
        cov.add({"get_formatting": bg}, nontrivial=got != "N", klass="get_formatting/" + ("int" if isinstance(bg, int) else ("none" if str(bg).lower() == "none" else "colour-string")))
        if got != rep:
            ctx.corr_breaks.append({"what": "TupimageTerminal.get_formatting differs from Model.get_formatting", "case": bg, "impl": got, "model": rep})
        if got != "N" and not pc.fmt_is_bg_only({"kind": "B", "bytes": got[2:]}):
            ctx.violations.append({"signature": {"class": "get_formatting-not-background"},
                                   "what": f"get_formatting({bg!r}) is not a background SGR sequence: {got}", "case": {"kind": "get_formatting", "bg": bg}})


def run(ctx, model):
    cov = common.Coverage("case = (api, id, pid, rectangle, mode, formatting, style) or a get_formatting argument; non-trivial = output produced; distinct by hash of the case")
    if model is None:
        return cov
    common.scrub_process_env()
    tup = common.import_impl()
    rng = ctx.rng
    cases = []
    n_per = ctx.pick(3, 60)
    for mode in pc.ALL_MODES:
        for k in range(n_per):
            cases.append(gen_case(rng, mode, "to_lines" if k % 3 != 2 else "to_stream", blank_rows=(k % 3 == 1) or rng.random() < 0.2))
    impl_res = [pc.run_impl(tup, c) for c in cases]
    reps = model.batch([pc.model_request(c) for c in cases])
    n_oracle = 0
    for c, (ist, iw), rep in zip(cases, impl_res, reps):
        mst, mw = pc.parse_model_reply(rep)
        blank = c["r1"] > pc.TABLE_LEN
        cov.add({k: c[k] for k in ("api", "id", "pid", "c0", "r0", "c1", "r1", "mode", "fmt", "style", "use_save", "use_lf", "pos")},
                nontrivial=ist == "OK", klass=f"{c['api']}/{ist}/fmt={c['fmt']['kind']}/{'with-blank-rows' if blank else 'image-rows'}/{'bg-only' if pc.fmt_is_bg_only(c['fmt']) else 'other-bytes'}")
        if ist != mst or iw != mw:
            ctx.corr_breaks.append({"what": "placeholder output with formatting: implementation and Model.PlaceholderModel differ", "case": c,
                                    "impl": [ist, None if iw is None else [hexs(x)[:300] for x in iw[:6]]],
                                    "model": [mst, None if mw is None else [hexs(x)[:300] for x in mw[:6]]]})
        if ist != "OK" or not pc.fmt_is_bg_only(c["fmt"]):
            continue
        if c["api"] == "to_lines":
            if c["r1"] - c["r0"] <= 10 and c["c1"] - c["c0"] <= 14:
                check_lines(ctx, model, cov, c, iw)
                n_oracle += 1
        elif c["r1"] - c["r0"] <= 12 and c["c1"] - c["c0"] <= 16:
            check_stream(ctx, model, cov, c, iw)
            n_oracle += 1
    cov.bump("oracle-cases", n_oracle)
    check_get_formatting(ctx, model, cov, tup)
    # lines of the same image put next to each other on a screen (two display_only calls at adjacent positions): each copy
    # decodes on its own — the high-level layer of harness/c07.py, where the mode is the library's choice
    import c07
    c07.highlevel_display(ctx, model, cov)
    return cov


def replay(ctx, model, rec):
    case = rec["case"]
    tup = common.import_impl()
    if case.get("kind") == "highlevel":
        import c07 as _c07
        n0 = len(ctx.violations)
        _c07.highlevel_display(ctx, model, common.Coverage("replay"))
        mine = ctx.violations[n0:]
        del ctx.violations[n0:]
        return {"violates": bool(mine), "violations": [v["what"] for v in mine][:3], "note": "the high-level display cases of this seed are re-run"}
    kind = case.get("kind")
    if kind in ("lines", "subset"):
        c = dict(case["case"], api="to_lines")
        st, lines = pc.run_impl(tup, c)
        if st != "OK":
            return {"violates": True, "note": f"implementation raised {st}"}
        w = c["c1"] - c["c0"]
        if kind == "lines":
            i = case["line"]
            r = pc.parse_render(model.one(pc.render_request(w + 1, 2, 0, 0, True, lines[i] + b"\n")))
            d = pc.first_diff(expected_selected(c, [i], w + 1, 2, 0), r["cells"])
            shape = lines[i].startswith(RESET) and lines[i].endswith(RESET)
            return {"violates": r["sgr"] != ("D", "D", "D") or d is not None or not shape, "attrs_after_line": r["sgr"], "decode_diff": d, "starts_and_ends_with_reset": shape}
        sel, W, H, y0 = case["sel"], case["W"], case["H"], case["y0"]
        r = pc.parse_render(model.one(pc.render_request(W, H, 0, y0, True, b"".join(lines[i] + b"\n" for i in sel))))
        d = pc.first_diff(expected_selected(c, sel, W, H, y0), r["cells"])
        return {"violates": r["sgr"] != ("D", "D", "D") or d is not None, "attrs_after": r["sgr"], "decode_diff": d}
    if kind == "stream":
        c, scr = case["case"], case["screen"]
        st, writes = pc.run_impl(tup, c)
        if st != "OK":
            return {"violates": True, "note": f"implementation raised {st}"}
        r = pc.parse_render(model.one(pc.render_request(scr["W"], scr["H"], scr["cur"][0], scr["cur"][1], c["style"] == "lf", b"".join(writes))))
        exp = pc.expected_cells(c, scr["W"], scr["H"], scr["x0"], scr["y0"], scrolls=c["style"] != "abs")
        h = c["r1"] - c["r0"]
        s = max(0, scr["y0"] + h - scr["H"]) if c["style"] != "abs" else 0
        rect = {(scr["y0"] - s + k, scr["x0"] + j) for k in range(h) for j in range(c["c1"] - c["c0"])}
        outside = [k for k in r["bg"] if k not in rect]
        d = pc.first_diff(exp, r["cells"])
        return {"violates": d is not None or r["sgr"] != ("D", "D", "D") or bool(outside), "decode_diff": d, "attrs_after": r["sgr"], "bg_outside": outside[:3]}
    return {"violates": False, "note": "unknown replay kind"}
