(* C03/C12: several connections on one database (Model/SqlTxn.v) and the serializability oracle (Spec/SerialSpec.v).
   store  = "<ids>|<ups>"      ids as in drv_idm ("-" empty), ups = "id,term,desc,size,time;..." or "-"
   procs  = proc "+" proc ...  proc = call "~" call ... or "-"
   call   = G:desc:sp:b:e:now:mx:samples:hit:free:ties | S:id:desc:t | D:id | C:sp:b:e:mx:ties | I:id | N:sp:b:e | A:b:e
          | M:id:term:size:time:desc-or-"-" | U:id:term | L:n | P:id:term | Q:id:term:now:nmax:bmax:tmax
   events = "0,1,x0,..." ("x" = kill) or "-"
   txn.run <flags|src> <store> <procs> <events>
        -> "<store> # <results per proc: r;r + r> # <enabled: 1/0 per event> # <linearisation: pid,pid,...>"
   txn.serial <store> <hist> <final-store>      hist like procs with "=result" appended to every call   -> 1 | 0
   txn.open <schema: o,o,..|-> <n> <events>     -> "<full 1/0> <schema sorted>" *)
open Util
open SqlTxn
open IdManager

let ni s = n_of_int (int_of_string s)
let zi s = z_of_int (int_of_string s)
let split c s = String.split_on_char c s

let parse_ups (s : string) : UploadModel.utable =
  if s = "-" then [] else Stdlib.List.map (fun r ->
    match split ',' r with
    | [id; t; d; size; time] -> { UploadModel.rid = ni id; rterm = ni t; rdesc = ni d; rsize = zi size; rtime = zi time }
    | _ -> failwith "urow") (split ';' s)
let show_ups (u : UploadModel.utable) : string =
  if u = [] then "-" else
    let rows = Stdlib.List.map (fun r -> (int_of_n r.UploadModel.rid, int_of_n r.UploadModel.rterm, int_of_n r.UploadModel.rdesc, int_of_z r.UploadModel.rsize, int_of_z r.UploadModel.rtime)) u in
    String.concat ";" (Stdlib.List.map (fun (a, b, c, d, e) -> Printf.sprintf "%d,%d,%d,%d,%d" a b c d e) (Stdlib.List.sort compare rows))
let parse_store (s : string) : store =
  match split '|' s with
  | [a; b] -> { ids = Drv_idm.parse_state a; ups = parse_ups b }
  | _ -> failwith "store"
let show_store (s : store) : string = Drv_idm.show_state s.ids ^ "|" ^ show_ups s.ups

let choice hit free ties = { hit_pick = ni hit; free_pick = ni free; tie = Drv_idm.parse_ties ties }
let parse_call (s : string) : call =
  match split ':' s with
  | ["G"; desc; sp; b; e; now; mx; samples; hit; free; ties] ->
    CGet (ni desc, Drv_idm.sp_of sp, (ni b, ni e), zi now, zi mx, Drv_idm.nums samples, choice hit free ties)
  | ["S"; id; desc; t] -> CSet (ni id, ni desc, zi t)
  | ["D"; id] -> CDel (ni id)
  | ["C"; sp; b; e; mx; ties] -> CCleanup (Drv_idm.sp_of sp, (ni b, ni e), zi mx, choice "0" "0" ties)
  | ["I"; id] -> CInfo (ni id)
  | ["N"; sp; b; e] -> CCount (Drv_idm.sp_of sp, (ni b, ni e))
  | ["A"; b; e] -> CCountAll (ni b, ni e)
  | ["M"; id; t; size; time; d] -> CMark (ni id, ni t, zi size, zi time, (if d = "-" then None else Some (ni d)))
  | ["U"; id; t] -> CUnmark (ni id, ni t)
  | ["L"; n] -> CCleanUploads (zi n)
  | ["P"; id; t] -> CUploadInfo (ni id, ni t)
  | ["Q"; id; t; now; nm; bm; tm] -> CNeeds (ni id, ni t, zi now, zi nm, zi bm, zi tm)
  | _ -> failwith ("call " ^ s)

let show_result (r : result) : string =
  match r with
  | RGet (GotId id) -> Printf.sprintf "ID:%d" (int_of_n id)
  | RGet GetFailed -> "FAILED"
  | RGet GetStuck -> "STUCK"
  | RDone -> "OK"
  | RError -> "ERR"
  | RInfo None -> "INFO:-"
  | RInfo (Some r) -> Printf.sprintf "INFO:%d,%d" (int_of_n r.idesc) (int_of_z r.iatime)
  | RNum n -> Printf.sprintf "NUM:%d" (int_of_n n)
  | RUp None -> "UP:-"
  | RUp (Some ((((d, time), size), ba), ua)) -> Printf.sprintf "UP:%d,%d,%d,%d,%d" (int_of_n d) (int_of_z time) (int_of_z size) (int_of_z ba) (int_of_z ua)
  | RBool b -> "B:" ^ bool_s b

let parse_procs (s : string) : call list list =
  Stdlib.List.map (fun p -> if p = "-" then [] else Stdlib.List.map parse_call (split '~' p)) (split '+' s)
let parse_events (s : string) : event list =
  if s = "-" then [] else Stdlib.List.map (fun e ->
    if String.length e > 0 && e.[0] = 'x' then Kill (nat_of_int (int_of_string (String.sub e 1 (String.length e - 1))))
    else Run (nat_of_int (int_of_string e))) (split ',' s)

let cmp_of flags =
  if flags = "src" then compile
  else if String.length flags = 4 then compile_with (flags.[0] = '1') (flags.[1] = '1') (flags.[2] = '1') (flags.[3] = '1')
  else failwith "flags"

let () =
  register "txn.run" (fun a -> match a with
    | [flags; st; procs; evs] ->
      let w0 = init_world (parse_store st) (parse_procs procs) in
      let (w, en) = run_trace (cmp_of flags) w0 (parse_events evs) in
      let res = String.concat " + " (Stdlib.List.map (fun pr ->
        let rs = Stdlib.List.map show_result pr.coq_done in if rs = [] then "-" else String.concat ";" rs) w.procs) in
      let lin = String.concat "," (Stdlib.List.map (fun ((p, _), _) -> string_of_int (int_of_nat p)) w.log) in
      Printf.sprintf "%s # %s # %s # %s" (show_store w.committed) res
        (String.concat "" (Stdlib.List.map bool_s en)) (if lin = "" then "-" else lin)
    | _ -> "ERR args");
  register "txn.serial" (fun a -> match a with
    | [st; hist; fin] ->
      let parse_h s = Stdlib.List.map (fun p -> if p = "-" then [] else Stdlib.List.map (fun cr ->
        match split '=' cr with
        | [c; r] -> (parse_call c, r)
        | _ -> failwith "hist") (split '~' p)) (split '+' s) in
      (* results are compared through their printed form, databases through their canonical printed form *)
      let exec c s = let (s', r) = exec_call c s in (s', show_result r) in
      let ok = SerialSpec.serial_ok exec (fun (x : string) y -> x = y) (fun x y -> show_store x = show_store y)
          (parse_store st) (parse_h hist) (parse_store fin) in
      bool_s ok
    | _ -> "ERR args");
  register "txn.open" (fun a -> match a with
    | [sc; n; evs] ->
      let sc = if sc = "-" then [] else Stdlib.List.map (fun x -> nat_of_int (int_of_string x)) (split ',' sc) in
      let w = orun (oinit sc (nat_of_int (int_of_string n))) (parse_events evs) in
      let l = Stdlib.List.sort compare (Stdlib.List.map int_of_nat w.osch) in
      Printf.sprintf "%s %s" (bool_s (schema_full w.osch)) (if l = [] then "-" else String.concat "," (Stdlib.List.map string_of_int l))
    | _ -> "ERR args")
