(* C05/C06: graphics commands.  Token format of a command (see harness/cmdcodec.py):
   T i I medium data S O q m f o s v query omit  P pid virt rows cols nomove x y w h   (P... or a single _)
   M i I data m
   U i I q  pid virt rows cols nomove x y w h
   D i I p q what deldata *)
open Util
open CommandTypes

let opt f s = if s = "_" then None else Some (f s)
let num s = n_of_int (int_of_string s)
let bool_ s = (s = "1")
let quiet s = match s with "0" -> QVerbose | "1" -> QUnlessError | "2" -> QAlways | _ -> failwith "quiet"
let fmt s = match s with "24" -> FRgb | "32" -> FRgba | "100" -> FPng | _ -> failwith "format"
let medium s = match s with "d" -> MDirect | "f" -> MFile | "t" -> MTemp | "s" -> MShm | _ -> failwith "medium"
let what s = match s with
  | "a" -> WVisible | "i" -> WById | "n" -> WByNumber | "c" -> WUnderCursor | "f" -> WFrames
  | "p" -> WAtPos | "q" -> WAtPosZ | "x" -> WAtCol | "y" -> WAtRow | "z" -> WAtZ | _ -> failwith "what"

let placement = function
  | [pid; virt; rows; cols; nomove; x; y; w; h] ->
    { p_placement_id = opt num pid; p_virtual = opt bool_ virt; p_rows = opt num rows; p_cols = opt num cols;
      p_do_not_move_cursor = opt bool_ nomove; p_src_x = opt num x; p_src_y = opt num y; p_src_w = opt num w; p_src_h = opt num h }
  | _ -> failwith "placement tokens"

let parse_cmd (toks : string list) : command =
  match toks with
  | "T" :: i :: ii :: med :: data :: s :: o :: q :: m :: f :: comp :: pw :: ph :: query :: omit :: rest ->
    let pl = match rest with ["_"] -> None | "P" :: r -> Some (placement r) | _ -> failwith "T placement" in
    CTransmit { t_image_id = opt num i; t_image_number = opt num ii; t_medium = opt medium med; t_data = bytes_of_hex data;
                t_size = opt num s; t_offset = opt num o; t_quiet = opt quiet q; t_more = opt bool_ m; t_format = opt fmt f;
                t_compression = opt (fun _ -> Obj.repr ()) comp; t_pix_width = opt num pw; t_pix_height = opt num ph;
                t_query = opt bool_ query; t_placement = pl; t_omit_action = bool_ omit }
  | ["M"; i; ii; data; m] ->
    CMore { m_image_id = opt num i; m_image_number = opt num ii; m_data = bytes_of_hex data; m_more = opt bool_ m }
  | "U" :: i :: ii :: q :: r ->
    CPut { u_image_id = opt num i; u_image_number = opt num ii; u_quiet = opt quiet q; u_placement = placement r }
  | ["D"; i; ii; p; q; w; dd] ->
    CDelete { d_image_id = opt num i; d_image_number = opt num ii; d_placement_id = opt num p; d_quiet = opt quiet q;
              d_what = opt what w; d_delete_data = opt bool_ dd }
  | _ -> failwith "command tokens"

let template n = match TmuxTemplate.template (nat_of_int n) with Some t -> t | None -> failwith "template"

let () =
  register "cmd.content" (fun a -> hex_of_bytes (GraphicsCommand.content_bytes (parse_cmd a)));
  register "cmd.header" (fun a -> hex_of_bytes (GraphicsCommand.header_bytes (parse_cmd a)));
  register "cmd.to_bytes" (fun a -> match a with
    | n :: toks -> hex_opt (GraphicsCommand.to_bytes (template (int_of_string n)) (parse_cmd toks))
    | _ -> "ERR args");
  register "cmd.conforms" (fun a -> match a with
    | esc :: toks -> bool_s (KittyProtoSpec.conforms (parse_cmd toks) (bytes_of_hex esc))
    | _ -> "ERR args");
  register "cmd.send" (fun a -> match a with
    | n :: maxsize :: toks ->
      (match SendModel.send (parse_cmd toks) (template (int_of_string n)) (z_of_int (int_of_string maxsize)) with
       | SendModel.SendError -> "ERROR"
       | SendModel.SendOk ws -> if ws = [] then "EMPTY" else String.concat "," (Stdlib.List.map hex_of_bytes ws))
    | _ -> "ERR args");
  (* GraphicsTerminal.send_command: termPh termDirect callPh callDirect pid filename(hex|-) filecontent(hex|-|NOFILE) layers maxsize toks...
     -> OPENFAILED | ERROR | <print 0/1>;<writes , separated | EMPTY> *)
  register "cmd.send_command" (fun a -> match a with
    | tph :: tdi :: cph :: cdi :: pid :: fname :: fcontent :: n :: maxsize :: toks ->
      let ob s = if s = "_" then None else Some (s = "1") in
      let name = if fname = "-" then [] else bytes_of_hex fname in
      let file nm = if fcontent = "NOFILE" then None else if nm = name then Some (if fcontent = "-" then [] else bytes_of_hex fcontent) else None in
      (match SendCommand.send_command { SendCommand.tf_placeholders = (tph = "1"); SendCommand.tf_direct = (tdi = "1") } (ob cph) (ob cdi)
               (num pid) file (template (int_of_string n)) (z_of_int (int_of_string maxsize)) (parse_cmd toks) with
       | SendCommand.ScOpenFailed -> "OPENFAILED"
       | SendCommand.ScRejected -> "ERROR"
       | SendCommand.ScWritten (ws, pr) -> bool_s pr ^ ";" ^ (if ws = [] then "EMPTY" else String.concat "," (Stdlib.List.map hex_of_bytes ws)))
    | _ -> "ERR args");
  (* Spec parse of one escape: "k:hex,k:hex;payloadhex" | "k:hex;NOPAYLOAD" | NONE *)
  register "cmd.spec_parse" (fun a -> match a with
    | [esc] ->
      (match KittyProtoSpec.parse_escape (bytes_of_hex esc) with
       | None -> "NONE"
       | Some (kv, p) ->
         let ks = String.concat "," (Stdlib.List.map (fun (k, v) -> Printf.sprintf "%c:%s" (Char.chr (int_of_n k)) (hex_of_bytes v)) kv) in
         (if ks = "" then "_" else ks) ^ ";" ^ (match p with None -> "NOPAYLOAD" | Some d -> hex_of_bytes d))
    | _ -> "ERR args")
