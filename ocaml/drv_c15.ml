(* C15: cell-size model (rational instance) and the Spec/SizingSpec oracles.
   Encoding of a case (space separated; N = None):
     w h cols rows amc amr scale ccell dcell cscale gscale cmc cmr T...
   ints are decimal, rationals "n/d" (d > 0), pairs "a,b";
   T = "W lines cols xpx ypx" (a GraphicsTerminal on a tty with that window size) or
       "S size cell" with size = "a,b" | N (get_size() returns None) | E (raises ValueError), cell = "a,b" | N. *)
open Util
open CellSize

let zi s = z_of_int (int_of_string s)
let opt f s = if s = "N" then None else Some (f s)
let pair s = match String.split_on_char ',' s with
  | [a; b] -> (zi a, zi b) | _ -> failwith ("pair " ^ s)
let q_of s = match String.split_on_char '/' s with
  | [n; d] -> { QArith_base.coq_Qnum = zi n; QArith_base.coq_Qden = pos_of_int (int_of_string d) }
  | _ -> failwith ("rational " ^ s)
let err_s = function EValue -> "ValueError" | EZeroDivision -> "ZeroDivisionError" | EOverflow -> "OverflowError"
let res_pair = function
  | Ok (a, b) -> Printf.sprintf "OK %d %d" (int_of_z a) (int_of_z b)
  | Err e -> "ERR " ^ err_s e
let term_of = function
  | ["W"; l; c; x; y] -> term_of_winsize { ws_lines = zi l; ws_cols = zi c; ws_xpx = zi x; ws_ypx = zi y }
  | ["S"; size; cell] ->
    { t_size = (if size = "E" then Err EValue else Ok (opt pair size)); t_cell = opt pair cell }
  | _ -> failwith "term"

let () =
  (* the whole call: limits | cell size | get_optimal_cols_and_rows *)
  register "c15.case" (fun a -> match a with
    | w :: h :: cols :: rows :: amc :: amr :: scale :: ccell :: dcell :: cscale :: gscale :: cmc :: cmr :: t ->
      let t = term_of t in
      let cfg = { cfg_cell_size = opt pair ccell; cfg_default_cell_size = pair dcell; cfg_scale = opt q_of cscale;
                  cfg_global_scale = q_of gscale; cfg_max_cols = opt zi cmc; cfg_max_rows = opt zi cmr } in
      let m = get_max_cols_and_rows cfg.cfg_max_cols cfg.cfg_max_rows t (opt zi amc) (opt zi amr) in
      let (cw, ch) = get_cell_size cfg.cfg_cell_size cfg.cfg_default_cell_size t in
      let r = q_get_optimal_cols_and_rows cfg t (zi w) (zi h) (opt zi cols) (opt zi rows) (opt zi amc) (opt zi amr) (opt q_of scale) in
      Printf.sprintf "%s|%d %d|%s" (res_pair m) (int_of_z cw) (int_of_z ch) (res_pair r)
    | _ -> "ERR args");
  (* Spec oracles: W H cw ch C R *)
  register "c15.spec_no_unused" (fun a -> match a with
    | [w; h; cw; ch; c; r] -> bool_s (SizingSpec.no_unused_row_or_colb (q_of w) (q_of h) (zi cw) (zi ch) (zi c) (zi r))
    | _ -> "ERR args");
  register "c15.spec_smallest" (fun a -> match a with
    | [w; h; cw; ch; c; r] -> bool_s (SizingSpec.smallest_containing_boxb (q_of w) (q_of h) (zi cw) (zi ch) (zi c) (zi r))
    | _ -> "ERR args")
