(* C19: terminal responses.
   Numbers travel in binary ("-101", "0") so that values beyond OCaml's int are exact. *)
open Util
open BinNums

let rec bin_of_pos (p : positive) (acc : string list) : string list =
  match p with
  | Coq_xH -> "1" :: acc
  | Coq_xO q -> bin_of_pos q ("0" :: acc)
  | Coq_xI q -> bin_of_pos q ("1" :: acc)
let bin_of_n (n : coq_N) = match n with N0 -> "0" | Npos p -> Stdlib.String.concat "" (bin_of_pos p [])
let bin_of_z (z : coq_Z) = match z with
  | Z0 -> "0" | Zpos p -> Stdlib.String.concat "" (bin_of_pos p [])
  | Zneg p -> "-" ^ Stdlib.String.concat "" (bin_of_pos p [])
let n_of_bin (s : string) : coq_N =
  let acc = ref None in
  Stdlib.String.iter (fun c ->
    acc := (match !acc, c with
      | None, '0' -> None
      | None, _ -> Some Coq_xH
      | Some p, '0' -> Some (Coq_xO p)
      | Some p, _ -> Some (Coq_xI p))) s;
  match !acc with None -> N0 | Some p -> Npos p

let optz = function None -> "N" | Some z -> bin_of_z z
let optn = function None -> "N" | Some n -> bin_of_n n
let optb = function None -> "NONE" | Some l -> hex_of_bytes l
let extras (d : (coq_N list * coq_N list option) list) =
  if d = [] then "-" else
  Stdlib.String.concat "," (Stdlib.List.map (fun (k, v) -> hex_of_bytes k ^ ":" ^ optb v) d)
let exn_s = function
  | ResponseModel.UnicodeDecodeError -> "UnicodeDecodeError"
  | ResponseModel.ValueError -> "ValueError"
  | ResponseModel.TimeoutError -> "TimeoutError"
let resp_s (r : ResponseModel.response) =
  Printf.sprintf "i=%s I=%s p=%s x=%s m=%s ok=%s valid=%s nr=%s"
    (optz r.ResponseModel.image_id) (optz r.ResponseModel.image_number) (optz r.ResponseModel.placement_id)
    (extras r.ResponseModel.additional_data) (hex_of_bytes r.ResponseModel.message)
    (bool_s r.ResponseModel.is_ok) (bool_s r.ResponseModel.is_valid) (hex_of_bytes r.ResponseModel.non_response)

(* item tokens: i:<bin> I:<bin> p:<bin> x:<khex>:<vhex|NONE> *)
let item_of_token (t : string) : ResponseSpec.item =
  match Stdlib.String.split_on_char ':' t with
  | ["i"; n] -> ResponseSpec.ImageId (n_of_bin n)
  | ["I"; n] -> ResponseSpec.ImageNumber (n_of_bin n)
  | ["p"; n] -> ResponseSpec.PlacementId (n_of_bin n)
  | ["x"; k; v] -> ResponseSpec.Extra (bytes_of_hex k, (if v = "NONE" then None else Some (bytes_of_hex v)))
  | _ -> failwith ("bad item " ^ t)

let () =
  (* receive <stream hex> -> "R <fields> rest=<hex>" | "E <exn> rest=<hex>" *)
  register "c19.receive" (fun a -> match a with
    | [s] ->
      (match ResponseModel.receive (bytes_of_hex s) with
       | (ResponseModel.Got r, rest) -> "R " ^ resp_s r ^ " rest=" ^ hex_of_bytes rest
       | (ResponseModel.Raised e, rest) -> "E " ^ exn_s e ^ " rest=" ^ hex_of_bytes rest)
    | _ -> "ERR args");
  (* receive_multiple <stream hex> -> "L <n> rest=<hex> | <fields> | <fields> ..." | "E rest=<hex>" *)
  register "c19.receive_multiple" (fun a -> match a with
    | [s] ->
      (match ResponseModel.receive_multiple (bytes_of_hex s) with
       | (Some l, rest) ->
         Stdlib.String.concat " | " (Printf.sprintf "L %d rest=%s" (Stdlib.List.length l) (hex_of_bytes rest) :: Stdlib.List.map resp_s l)
       | (None, rest) -> "E rest=" ^ hex_of_bytes rest)
    | _ -> "ERR args");
  register "c19.cursor_report" (fun a -> match a with
    | [s] ->
      (match ResponseModel.cursor_report (bytes_of_hex s) with
       | (ResponseModel.CursorAt (x, y), rest) -> Printf.sprintf "P %s %s rest=%s" (bin_of_z x) (bin_of_z y) (hex_of_bytes rest)
       | (ResponseModel.CursorRaised e, rest) -> "E " ^ exn_s e ^ " rest=" ^ hex_of_bytes rest)
    | _ -> "ERR args");
  register "c19.cursor_query" (fun _ -> hex_of_bytes ResponseModel.cursor_query);
  register "c19.py_int" (fun a -> match a with
    | [s] -> optz (ResponseModel.py_int (bytes_of_hex s))
    | _ -> "ERR args");
  register "c19.utf8_ok" (fun a -> match a with
    | [s] -> bool_s (ResponseModel.utf8_ok (bytes_of_hex s))
    | _ -> "ERR args");
  (* Spec: spec_response <noise hex> <msg hex|NONE> <item>... -> "<encoded hex> <expected fields>" *)
  register "c19.spec_response" (fun a -> match a with
    | noise :: msg :: items ->
      let noise = bytes_of_hex noise in
      let msg = if msg = "NONE" then None else Some (bytes_of_hex msg) in
      let items = Stdlib.List.map item_of_token items in
      let e = ResponseSpec.expected noise items msg in
      Printf.sprintf "%s i=%s I=%s p=%s x=%s m=%s ok=%s valid=1 nr=%s"
        (hex_of_bytes (ResponseSpec.enc_response items msg))
        (optn e.ResponseSpec.p_image_id) (optn e.ResponseSpec.p_image_number) (optn e.ResponseSpec.p_placement_id)
        (extras e.ResponseSpec.p_extras) (hex_of_bytes e.ResponseSpec.p_message) (bool_s e.ResponseSpec.p_ok)
        (hex_of_bytes e.ResponseSpec.p_noise)
    | _ -> "ERR args");
  register "c19.spec_cpr" (fun a -> match a with
    | [row; col] -> hex_of_bytes (ResponseSpec.enc_cpr (n_of_bin row) (n_of_bin col))
    | _ -> "ERR args")
