(* C10: ID spaces.  Spaces travel as "<color_bits> <use_3rd 0|1>", subspaces as "<begin> <end>",
   lists of numbers comma-separated ("-" when empty), Python exceptions as "E". *)
open Util
let ints_s (l : BinNums.coq_N list) : string =
  if l = [] then "-" else String.concat "," (Stdlib.List.map (fun x -> string_of_int (int_of_n x)) l)
let ints_of_s (s : string) : BinNums.coq_N list =
  if s = "-" then [] else Stdlib.List.map (fun x -> n_of_int (int_of_string x)) (String.split_on_char ',' s)
let sp_of cb d =
  match IdSpace.mk_space (n_of_int (int_of_string cb)) (d = "1") with
  | Some sp -> sp
  | None -> failwith "invalid space"
let sp_s sp = Printf.sprintf "%d,%d" (int_of_n (IdSpace.color_bits sp)) (if IdSpace.use_3rd sp then 1 else 0)
let sub_of b e = (n_of_int (int_of_string b), n_of_int (int_of_string e))
let sub_s (b, e) = Printf.sprintf "%d:%d" (int_of_n b) (int_of_n e)
let optb = function None -> "E" | Some b -> bool_s b
let bits f l = if l = [] then "-" else String.concat "" (Stdlib.List.map (fun x -> bool_s (f x)) l)
let () =
  register "c10.all_spaces" (fun _ -> String.concat " " (Stdlib.List.map sp_s IdSpace.all_spaces));
  register "c10.mk_space" (fun a -> match a with
    | [cb; d] -> (match IdSpace.mk_space (n_of_int (int_of_string cb)) (d = "1") with Some sp -> sp_s sp | None -> "E")
    | _ -> "ERR args");
  (* size offset mask masked_begin masked_end *)
  register "c10.static" (fun a -> match a with
    | [cb; d; b; e] ->
      let sp = sp_of cb d and s = sub_of b e in
      let (mb, me) = IdSpace.subspace_masked_range sp s in
      Printf.sprintf "%d %d %d %d %d" (int_of_n (IdSpace.subspace_size sp s)) (int_of_n (IdSpace.subspace_byte_offset sp))
        (int_of_n (IdSpace.subspace_byte_mask sp)) (int_of_n mb) (int_of_n me)
    | _ -> "ERR args");
  (* from_id get_subspace_byte   (any Python int) *)
  register "c10.classify" (fun a -> match a with
    | [id] ->
      let z = z_of_int (int_of_string id) in
      (match IdSpace.from_id_z z with
       | None -> "E E"
       | Some sp ->
         let n = n_of_int (int_of_string id) in
         (match IdSpace.from_id n, IdSpace.get_subspace_byte n with
          | Some sp', Some x when sp' = sp -> Printf.sprintf "%s %d" (sp_s sp) (int_of_n x)
          | _ -> "ERR from_id_z/from_id disagree"))
    | _ -> "ERR args");
  (* contains contains_and_in_subspace sql_filter spec_in_space spec_in_sub   (id >= 0) *)
  register "c10.member" (fun a -> match a with
    | [cb; d; b; e; id] ->
      let sp = sp_of cb d and s = sub_of b e and n = n_of_int (int_of_string id) in
      Printf.sprintf "%s %s %s %s %s" (optb (IdSpace.contains sp n)) (optb (IdSpace.contains_and_in_subspace sp n s))
        (bool_s (IdSpace.sql_filter sp s n)) (bool_s (IdLayoutSpec.in_space_b sp n)) (bool_s (IdLayoutSpec.in_sub_b sp s n))
    | _ -> "ERR args");
  register "c10.filter_many" (fun a -> match a with
    | [cb; d; b; e; ids] -> let sp = sp_of cb d and s = sub_of b e in bits (IdSpace.sql_filter sp s) (ints_of_s ids)
    | _ -> "ERR args");
  register "c10.spec_in_sub_many" (fun a -> match a with
    | [cb; d; b; e; ids] -> let sp = sp_of cb d and s = sub_of b e in bits (IdLayoutSpec.in_sub_b sp s) (ints_of_s ids)
    | _ -> "ERR args");
  register "c10.spec_in_space_many" (fun a -> match a with
    | [cb; d; ids] -> let sp = sp_of cb d in bits (IdLayoutSpec.in_space_b sp) (ints_of_s ids)
    | _ -> "ERR args");
  register "c10.spec_sub_byte" (fun a -> match a with
    | [cb; d; id] -> string_of_int (int_of_n (IdLayoutSpec.sub_byte (sp_of cb d) (n_of_int (int_of_string id))))
    | _ -> "ERR args");
  register "c10.spec_valid_sub" (fun a -> match a with
    | [b; e] -> let s = sub_of b e in Printf.sprintf "%s %d" (bool_s (IdLayoutSpec.valid_sub_b s)) (int_of_n (IdLayoutSpec.nonzero_values s))
    | _ -> "ERR args");
  register "c10.all_ids" (fun a -> match a with
    | [cb; d; b; e] -> ints_s (IdSpace.all_ids (sp_of cb d) (sub_of b e))
    | _ -> "ERR args");
  (* lengths of the three value lists *)
  register "c10.vals_len" (fun a -> match a with
    | [cb; d; b; e] ->
      let sp = sp_of cb d and s = sub_of b e in
      Printf.sprintf "%d %d %d" (Stdlib.List.length (IdSpace.byte3_vals sp s)) (Stdlib.List.length (IdSpace.byte12_vals sp s))
        (Stdlib.List.length (IdSpace.byte0_vals sp s))
    | _ -> "ERR args");
  register "c10.all_ids_block" (fun a -> match a with
    | [cb; d; b; e; i3; lo; n] ->
      ints_s (IdSpace.all_ids_block (sp_of cb d) (sub_of b e) (nat_of_int (int_of_string i3)) (nat_of_int (int_of_string lo)) (nat_of_int (int_of_string n)))
    | _ -> "ERR args");
  (* D <id> <asked> <rest> | N <asked> <n> | B <asked> <n> <d> *)
  register "c10.gen" (fun a -> match a with
    | [cb; d; b; e; ds] ->
      (match IdSpace.gen_random_id (sp_of cb d) (sub_of b e) (ints_of_s ds) with
       | IdSpace.Done (id, asked, rest) -> Printf.sprintf "D %d %s %s" (int_of_n id) (ints_s asked) (ints_s rest)
       | IdSpace.NoDraw (asked, n) -> Printf.sprintf "N %s %d" (ints_s asked) (int_of_n n)
       | IdSpace.BadDraw (asked, n, dd) -> Printf.sprintf "B %s %d %d" (ints_s asked) (int_of_n n) (int_of_n dd))
    | _ -> "ERR args");
  register "c10.mk_sub" (fun a -> match a with
    | [b; e] -> (match IdSpace.mk_subspace (z_of_int (int_of_string b)) (z_of_int (int_of_string e)) with Some s -> sub_s s | None -> "E")
    | _ -> "ERR args");
  (* num_byte_values num_nonzero all_byte_values all_nonzero_byte_values contains_byte(0..256 as bits) *)
  register "c10.sub_helpers" (fun a -> match a with
    | [b; e] ->
      let s = sub_of b e in
      let probes = Stdlib.List.init 258 (fun i -> n_of_int i) in
      Printf.sprintf "%d %d %s %s %s" (int_of_n (IdSpace.num_byte_values s)) (int_of_n (IdSpace.num_nonzero_byte_values s))
        (ints_s (IdSpace.all_byte_values s)) (ints_s (IdSpace.all_nonzero_byte_values s)) (bits (IdSpace.contains_byte s) probes)
    | _ -> "ERR args");
  register "c10.split" (fun a -> match a with
    | [b; e; k] ->
      (match IdSpace.split (sub_of b e) (z_of_int (int_of_string k)) with
       | IdSpace.SplitOk parts -> "OK " ^ (if parts = [] then "-" else String.concat "," (Stdlib.List.map sub_s parts))
       | IdSpace.SplitValueError -> "ValueError"
       | IdSpace.SplitIndexError -> "IndexError")
    | _ -> "ERR args");
  register "c10.space_str" (fun a -> match a with
    | [cb; d] -> let sp = sp_of cb d in
      Printf.sprintf "%s %s %d" (hex_of_bytes (IdSpace.space_to_string sp)) (hex_of_bytes (IdSpace.namespace_name sp)) (int_of_n (IdSpace.num_nonzero_bits sp))
    | _ -> "ERR args");
  register "c10.space_from_string" (fun a -> match a with
    | [h] -> (match IdSpace.space_from_string (bytes_of_hex h) with Some sp -> sp_s sp | None -> "E")
    | _ -> "ERR args");
  register "c10.sub_to_string" (fun a -> match a with
    | [b; e] -> hex_of_bytes (IdSpace.sub_to_string (sub_of b e))
    | _ -> "ERR args");
  register "c10.sub_from_string" (fun a -> match a with
    | [h] -> (match IdSpace.sub_from_string (bytes_of_hex h) with Some s -> sub_s s | None -> "E")
    | _ -> "ERR args")
