(* C07 / C13 / C14: placeholder model, Spec terminal + placeholder decoder, feature scan.
   Argument conventions (all space separated):
     P  = id pid c0 r0 c1 r1                      six non-negative ints
     M  = a256id a256pid skip lvl1 lvl2 ph         three 0/1, two ints, code points joined by ','
     F  = N | B:<hex> | R:<hex>,<hex>,...          row -> table[row mod len]
            | C:<a>:<b>:<hex>,<hex>,...            (col,row) -> table[(a*col + b*row) mod len]
     pos = - | x,y
   Replies: "OK <hex>,<hex>,..." (one hex string per line / per stream.write), "ValueError", "IndexError". *)
open Util
module PM = PlaceholderModel
module TS = TermSpec
module PS = PlaceholderSpec

let ni s = n_of_int (int_of_string s)
let b s = s = "1"
let split c s = if s = "" then [] else String.split_on_char c s
let hexlist s = Stdlib.List.map bytes_of_hex (split ',' s)
let parse_p = function
  | [id; pid; c0; r0; c1; r1] ->
    { PM.image_id = ni id; placement_id = ni pid; start_col = ni c0; start_row = ni r0; end_col = ni c1; end_row = ni r1 }
  | _ -> failwith "P"
let parse_m = function
  | [a; bb; c; l1; l2; ph] ->
    { PM.allow256_id = b a; allow256_pid = b bb; skip_pid0 = b c; lvl_first = ni l1; lvl_other = ni l2;
      ph_char = Stdlib.List.map ni (split ',' ph) }
  | _ -> failwith "M"
let parse_f s =
  if s = "N" then PM.FNone
  else match String.split_on_char ':' s with
    | ["B"; h] -> PM.FBytes (bytes_of_hex h)
    | ["R"; t] ->
      let tbl = Array.of_list (hexlist t) in
      PM.FRow (fun row -> tbl.(int_of_n row mod Array.length tbl))
    | ["C"; a; bb; t] ->
      let tbl = Array.of_list (hexlist t) in
      let a = int_of_string a and bb = int_of_string bb in
      PM.FCell (fun col row -> tbl.((a * int_of_n col + bb * int_of_n row) mod Array.length tbl))
    | _ -> failwith "F"
let parse_pos s =
  if s = "-" then None
  else match String.split_on_char ',' s with [x; y] -> Some (ni x, ni y) | _ -> failwith "pos"
let opt_n s = if s = "-" then None else Some (ni s)
let show = function
  | PM.Ok ls -> "OK " ^ String.concat "," (Stdlib.List.map hex_of_bytes ls)
  | PM.ErrValue -> "ValueError"
  | PM.ErrIndex -> "IndexError"

let rec take n l = if n = 0 then [] else match l with [] -> failwith "args" | x :: r -> x :: take (n - 1) r
let rec drop n l = if n = 0 then l else match l with [] -> failwith "args" | _ :: r -> drop (n - 1) r

let color_s = function
  | TS.CDefault -> "D"
  | TS.CIdx n -> "I" ^ string_of_int (int_of_n n)
  | TS.CRgb (r, g, bl) -> Printf.sprintf "R%d.%d.%d" (int_of_n r) (int_of_n g) (int_of_n bl)

(* render: feed the bytes to the Spec terminal (blank W x H screen, cursor x0,y0), then report
   cursor, SGR state, every decoded placeholder cell, every cell with a non-default background,
   every other non-empty cell *)
let render w h x0 y0 onlcr bytes =
  let bytes = if onlcr then TS.tty_onlcr bytes else bytes in
  let zw = z_of_int w and zh = z_of_int h in
  let t = TS.feed zw zh (TS.blank_term (z_of_int x0) (z_of_int y0)) bytes in
  let buf = Buffer.create 1024 in
  Buffer.add_string buf (Printf.sprintf "cur=%d,%d,%s sgr=%s,%s,%s cells=" (int_of_z t.TS.cx) (int_of_z t.TS.cy) (bool_s t.TS.pend)
                           (color_s t.TS.sgr.TS.afg) (color_s t.TS.sgr.TS.aul) (color_s t.TS.sgr.TS.abg));
  let bgs = Buffer.create 256 and others = Buffer.create 256 in
  for y = 0 to h - 1 do
    let cells = PS.row_cells t.TS.scr (z_of_int y) (nat_of_int w) in
    let dec = PS.decode_line (fun yy xx -> Stdlib.List.nth cells (int_of_z xx)) (nat_of_int w) (z_of_int y) in
    Stdlib.List.iteri (fun x d -> match d with
        | None -> ()
        | Some d -> Buffer.add_string buf (Printf.sprintf "%d,%d,%d,%d,%d,%d;" y x (int_of_n d.PS.d_id) (int_of_n d.PS.d_pid) (int_of_n d.PS.d_row) (int_of_n d.PS.d_col))) dec;
    Stdlib.List.iteri (fun x c ->
        if c.TS.cbg <> TS.CDefault then Buffer.add_string bgs (Printf.sprintf "%d,%d,%s;" y x (color_s c.TS.cbg));
        if int_of_n c.TS.ch <> 0 && not (PS.is_placeholder c) then
          Buffer.add_string others (Printf.sprintf "%d,%d,%d;" y x (int_of_n c.TS.ch))) cells
  done;
  Buffer.add_string buf " bg="; Buffer.add_buffer buf bgs;
  Buffer.add_string buf " other="; Buffer.add_buffer buf others;
  Buffer.contents buf

let () =
  register "c07.to_lines" (fun a -> match a with
    | _ when Stdlib.List.length a = 14 ->
      show (PM.to_lines (parse_p (take 6 a)) (parse_m (take 6 (drop 6 a))) (parse_f (Stdlib.List.nth a 12)) (b (Stdlib.List.nth a 13)))
    | _ -> "ERR args");
  register "c07.with_linefeeds" (fun a -> match a with
    | _ when Stdlib.List.length a = 14 ->
      show (PM.to_stream_with_linefeeds (parse_p (take 6 a)) (parse_m (take 6 (drop 6 a))) (parse_f (Stdlib.List.nth a 12)) (b (Stdlib.List.nth a 13)))
    | _ -> "ERR args");
  (* P M F pos use_save use_lf *)
  register "c07.to_stream" (fun a -> match a with
    | _ when Stdlib.List.length a = 16 ->
      show (PM.to_stream (parse_p (take 6 a)) (parse_pos (Stdlib.List.nth a 13)) (parse_m (take 6 (drop 6 a))) (parse_f (Stdlib.List.nth a 12))
              (b (Stdlib.List.nth a 14)) (b (Stdlib.List.nth a 15)))
    | _ -> "ERR args");
  (* base(P or six '-') overrides(six of int|-) M F pos use_save use_lf *)
  register "c07.print_placeholder" (fun a -> match a with
    | _ when Stdlib.List.length a = 22 ->
      let base = if Stdlib.List.hd a = "-" then None else Some (parse_p (take 6 a)) in
      (match Stdlib.List.map opt_n (take 6 (drop 6 a)) with
       | [o1; o2; o3; o4; o5; o6] ->
         show (PM.print_placeholder base o1 o2 o3 o4 o5 o6 (parse_pos (Stdlib.List.nth a 19)) (parse_m (take 6 (drop 12 a)))
                 (parse_f (Stdlib.List.nth a 18)) (b (Stdlib.List.nth a 20)) (b (Stdlib.List.nth a 21)))
       | _ -> "ERR args")
    | _ -> "ERR args");
  (* id c0 r0 c1 r1 fewer bg pos use_lf ph ;  bg = none | rgb:r,g,b | int:n *)
  register "c14.display_only" (fun a -> match a with
    | [id; c0; r0; c1; r1; fewer; bg; pos; lf; ph] ->
      let bg = if bg = "none" then PM.BgNoneStr else match String.split_on_char ':' bg with
          | ["int"; n] -> PM.BgInt (ni n)
          | ["rgb"; s] -> (match String.split_on_char ',' s with [r; g; bl] -> PM.BgColorStr (ni r, ni g, ni bl) | _ -> failwith "bg")
          | _ -> failwith "bg" in
      show (PM.display_only (ni id) (ni c0) (ni r0) (ni c1) (ni r1) (b fewer) bg (parse_pos pos) (b lf) (Stdlib.List.map ni (split ',' ph)))
    | _ -> "ERR args");
  register "c13.get_formatting" (fun a -> match a with
    | [bg] ->
      let bg = if bg = "none" then PM.BgNoneStr else match String.split_on_char ':' bg with
          | ["int"; n] -> PM.BgInt (ni n)
          | ["rgb"; s] -> (match String.split_on_char ',' s with [r; g; bl] -> PM.BgColorStr (ni r, ni g, ni bl) | _ -> failwith "bg")
          | _ -> failwith "bg" in
      (match PM.get_formatting bg with
       | PM.FNone -> "N"
       | PM.FBytes bs -> "B:" ^ hex_of_bytes bs
       | _ -> "other")
    | _ -> "ERR args");
  register "c07.mode_constructible" (fun a -> bool_s (PM.mode_constructible (parse_m a)));
  (* W H x0 y0 onlcr hexbytes *)
  register "c07.render" (fun a -> match a with
    | [w; h; x0; y0; onlcr; hx] -> render (int_of_string w) (int_of_string h) (int_of_string x0) (int_of_string y0) (b onlcr) (bytes_of_hex hx)
    | _ -> "ERR args");
  (* feature scan of a display stream with the Spec lexer *)
  register "c14.scan" (fun a -> match a with
    | [hx] ->
      let ks = TS.tokens (bytes_of_hex hx) in
      Printf.sprintf "truecolor_fg=%s fg256=%s max_diacritics=%d" (bool_s (IdFeatureSpec.uses_truecolor_fg ks)) (bool_s (IdFeatureSpec.uses_256_fg ks))
        (int_of_n (IdFeatureSpec.max_diacritics ks))
    | _ -> "ERR args");
  register "c14.in_space" (fun a -> match a with
    | [bits; third; id] -> bool_s (IdFeatureSpec.id_in_space { IdFeatureSpec.colour_bits = ni bits; uses_3rd = b third } (ni id))
    | _ -> "ERR args")
