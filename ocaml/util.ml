(* util.ml — conversions between OCaml values and the extracted N / Z / nat / lists,
   the line protocol, and the handler registry. *)
open BinNums

let rec pos_of_int (i : int) : positive =
  if i = 1 then Coq_xH else if i land 1 = 0 then Coq_xO (pos_of_int (i lsr 1)) else Coq_xI (pos_of_int (i lsr 1))
let n_of_int (i : int) : coq_N = if i = 0 then N0 else Npos (pos_of_int i)
let rec int_of_pos (p : positive) : int =
  match p with Coq_xH -> 1 | Coq_xO q -> 2 * int_of_pos q | Coq_xI q -> 2 * int_of_pos q + 1
let int_of_n (n : coq_N) : int = match n with N0 -> 0 | Npos p -> int_of_pos p
let z_of_int (i : int) : coq_Z = if i = 0 then Z0 else if i > 0 then Zpos (pos_of_int i) else Zneg (pos_of_int (-i))
let int_of_z (z : coq_Z) : int = match z with Z0 -> 0 | Zpos p -> int_of_pos p | Zneg p -> - (int_of_pos p)
let rec nat_of_int (i : int) : Datatypes.nat = if i <= 0 then Datatypes.O else Datatypes.S (nat_of_int (i - 1))
let rec int_of_nat (n : Datatypes.nat) : int = match n with Datatypes.O -> 0 | Datatypes.S k -> 1 + int_of_nat k

(* byte strings travel as lowercase hex; the empty string is "-" *)
let bytes_of_hex (s : string) : coq_N list =
  if s = "-" then [] else begin
    let n = String.length s / 2 in
    let rec go i acc = if i < 0 then acc else go (i - 1) (n_of_int (int_of_string ("0x" ^ String.sub s (2 * i) 2)) :: acc) in
    go (n - 1) []
  end
let hex_of_bytes (l : coq_N list) : string =
  if l = [] then "-" else begin
    let b = Buffer.create 64 in
    Stdlib.List.iter (fun x -> Buffer.add_string b (Printf.sprintf "%02x" (int_of_n x))) l;
    Buffer.contents b
  end
let hex_opt = function None -> "NONE" | Some l -> hex_of_bytes l
let bool_s b = if b then "1" else "0"

let handlers : (string, string list -> string) Hashtbl.t = Hashtbl.create 64
let register (name : string) (f : string list -> string) = Hashtbl.replace handlers name f
