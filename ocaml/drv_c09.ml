(* C09: c09.upload force id t size marktime now N B T nwrites fail(-1 = none) hist-tokens...
   hist tokens as in c04 (B:/U:/M:/C:) build the initial state.
   Reply: outcome performed-calls ; table rows *)
open Util
open UploadModel

module IM = Map.Make (Int)

let () =
  register "c09.upload" (fun args ->
    match args with
    | force :: id :: t :: size :: marktime :: now :: nm :: bm :: tm :: k :: fail :: hist ->
      let cur = ref IM.empty in
      let up = ref [] in
      let curf i = match IM.find_opt (int_of_n i) !cur with Some d -> Some (n_of_int d) | None -> None in
      Stdlib.List.iter (fun tok ->
        match String.split_on_char ':' tok with
        | ["B"; i; d] -> cur := IM.add (int_of_string i) (int_of_string d) !cur
        | ["U"; i] -> cur := IM.remove (int_of_string i) !cur
        | ["M"; i; tt; sz; time] ->
          up := mark_uploaded curf !up (n_of_int (int_of_string i)) (n_of_int (int_of_string tt)) (z_of_int (int_of_string sz)) (z_of_int (int_of_string time))
        | ["C"; n] -> up := cleanup_uploads !up (z_of_int (int_of_string n))
        | _ -> failwith ("bad token " ^ tok)) hist;
      let zi s = z_of_int (int_of_string s) in
      let q = { UploadFlow.q_id = n_of_int (int_of_string id); q_term = n_of_int (int_of_string t); q_force = (force = "1");
                q_size = zi size; q_now = zi now; q_mark_time = zi marktime; q_nmax = zi nm; q_bmax = zi bm; q_tmax = zi tm } in
      let ws = Stdlib.List.init (int_of_string k) (fun i -> [n_of_int (i land 255)]) in
      let f = int_of_string fail in
      let ((outcome, up'), performed) = UploadFlow.upload curf !up q ws (if f < 0 then None else Some (nat_of_int f)) in
      let o = match outcome with UploadFlow.Skipped -> "SKIPPED" | UploadFlow.Uploaded -> "UPLOADED" | UploadFlow.Failed -> "FAILED" in
      let rows = Stdlib.List.map (fun r -> Printf.sprintf "%d,%d,%d,%d,%d" (int_of_n r.rid) (int_of_n r.rterm) (int_of_n r.rdesc) (int_of_z r.rsize) (int_of_z r.rtime)) up' in
      Printf.sprintf "%s %d ;%s" o (Stdlib.List.length performed) (String.concat "|" (Stdlib.List.sort compare rows))
    | _ -> "ERR args")
