(* C17: configuration layers.  Wire format (no spaces inside one argument):
   value  := I<int> | F<m>:<e> | B0 | B1 | S<hex> | L<n>,v1,...,vn | T<n>,v1,...,vn
           | P<bits>:<0|1> | U<b>:<e> | M<hex> | N          (tokens separated by ',')
   items  := "-" | item;item;...      item := <namehex>=<value>
   file   := NONE | <pathhex>|<items>     dict := <labelhex>|<items> *)
open Util
open BinNums
open CfgTypes
open ConfigModel

(* arbitrary-size integers through the extracted Z *)
let z_ten = z_of_int 10
let z_of_string (s : string) : coq_Z =
  let neg = String.length s > 0 && s.[0] = '-' in
  let start = if neg || (String.length s > 0 && s.[0] = '+') then 1 else 0 in
  let acc = ref Z0 in
  for i = start to String.length s - 1 do
    acc := BinInt.Z.add (BinInt.Z.mul !acc z_ten) (z_of_int (Char.code s.[i] - 48))
  done;
  if neg then BinInt.Z.opp !acc else !acc
let string_of_z (z : coq_Z) : string =
  let neg = (match z with Zneg _ -> true | _ -> false) in
  let a = ref (BinInt.Z.abs z) in
  if !a = Z0 then "0" else begin
    let b = Buffer.create 20 in
    while !a <> Z0 do
      let d = int_of_z (BinInt.Z.modulo !a z_ten) in
      Buffer.add_char b (Char.chr (48 + d));
      a := BinInt.Z.div !a z_ten
    done;
    let s = Buffer.contents b in
    let n = String.length s in
    (if neg then "-" else "") ^ String.init n (fun i -> s.[n - 1 - i])
  end

let split2 c s = match String.index_opt s c with
  | Some i -> (String.sub s 0 i, String.sub s (i + 1) (String.length s - i - 1))
  | None -> failwith ("expected " ^ String.make 1 c ^ " in " ^ s)
let rest s = String.sub s 1 (String.length s - 1)

let rec parse_value (toks : string list) : value * string list =
  match toks with
  | [] -> failwith "value expected"
  | t :: r ->
    (match t.[0] with
     | 'I' -> (VInt (z_of_string (rest t)), r)
     | 'F' -> let (m, e) = split2 ':' (rest t) in (VFloat (z_of_string m, z_of_string e), r)
     | 'B' -> (VBool (t = "B1"), r)
     | 'S' -> (VStr (bytes_of_hex (rest t)), r)
     | 'M' -> (VMedium (bytes_of_hex (rest t)), r)
     | 'P' -> let (b, d) = split2 ':' (rest t) in (VSpace (z_of_string b, d = "1"), r)
     | 'U' -> let (b, e) = split2 ':' (rest t) in (VSub (z_of_string b, z_of_string e), r)
     | 'N' -> (VNone, r)
     | 'L' | 'T' ->
       let n = int_of_string (rest t) in
       let rec go k toks acc = if k = 0 then (Stdlib.List.rev acc, toks) else
           let (v, toks') = parse_value toks in go (k - 1) toks' (v :: acc) in
       let (vs, r') = go n r [] in
       ((if t.[0] = 'L' then VList vs else VTuple vs), r')
     | _ -> failwith ("bad value token " ^ t))
let value_of_string s =
  match parse_value (String.split_on_char ',' s) with (v, []) -> v | _ -> failwith "trailing value tokens"

let rec show_value (v : value) : string =
  match v with
  | VInt z -> "I" ^ string_of_z z
  | VFloat (m, e) -> "F" ^ string_of_z m ^ ":" ^ string_of_z e
  | VBool b -> if b then "B1" else "B0"
  | VStr s -> "S" ^ hex_of_bytes s
  | VMedium s -> "M" ^ hex_of_bytes s
  | VSpace (b, d) -> "P" ^ string_of_z b ^ ":" ^ (if d then "1" else "0")
  | VSub (b, e) -> "U" ^ string_of_z b ^ ":" ^ string_of_z e
  | VNone -> "N"
  | VList l -> Stdlib.String.concat "," (("L" ^ string_of_int (Stdlib.List.length l)) :: Stdlib.List.map show_value l)
  | VTuple l -> Stdlib.String.concat "," (("T" ^ string_of_int (Stdlib.List.length l)) :: Stdlib.List.map show_value l)

let parse_items (s : string) : (coq_N list * value) list =
  if s = "-" then [] else
    Stdlib.List.map (fun it -> let (k, v) = split2 '=' it in (bytes_of_hex k, value_of_string v)) (String.split_on_char ';' s)
let show_items (l : (coq_N list * value) list) : string =
  if l = [] then "-" else Stdlib.String.concat ";" (Stdlib.List.map (fun (k, v) -> hex_of_bytes k ^ "=" ^ show_value v) l)

let platform_of sd pb = { state_dir = bytes_of_hex sd; pipe_buf = z_of_string pb }

let show_err (e : err) : string =
  let txt = hex_of_bytes (err_text e) in
  match e with
  | EKey n -> "ERR key " ^ hex_of_bytes n ^ " - " ^ txt
  | EUnknownKeys ns -> "ERR unknownkeys " ^ Stdlib.String.concat "," (Stdlib.List.map hex_of_bytes ns) ^ " - " ^ txt
  | EValue (n, st) -> "ERR value " ^ hex_of_bytes n ^ " " ^ (match st with SConv -> "conv" | SType -> "type" | SRange -> "range") ^ " " ^ txt

let show_config (c : config) : string =
  let snap = Stdlib.String.concat ";" (Stdlib.List.map (fun ((n, v), p) -> hex_of_bytes n ^ "=" ^ show_value v ^ "@" ^ hex_of_bytes p) (snapshot c)) in
  "OK " ^ snap ^ " " ^ show_items (to_toml c)

let () =
  register "c17.normalize" (fun a -> match a with
    | [sd; pb; name; v] ->
      (match normalize (platform_of sd pb) (bytes_of_hex name) (value_of_string v) with
       | Ok r -> "OK " ^ show_value r
       | Err e -> show_err e)
    | _ -> "ERR args");
  register "c17.construct" (fun a -> match a with
    | [sd; pb; file; env; kw; ov; tmux] ->
      let file = if file = "NONE" then None else let (p, it) = split2 '|' file in Some (bytes_of_hex p, parse_items it) in
      let env = Stdlib.List.map (fun (k, v) -> match v with VStr s -> (k, s) | _ -> failwith "env values are strings") (parse_items env) in
      let dict s = let (l, it) = split2 '|' s in (bytes_of_hex l, parse_items it) in
      (match construct (platform_of sd pb) file env (dict kw) (dict ov) (tmux = "1") with
       | Ok c -> show_config c
       | Err e -> show_err e)
    | _ -> "ERR args");
  register "c17.load" (fun a -> match a with
    | [sd; pb; path; items] ->
      (match load_toml (platform_of sd pb) (bytes_of_hex path) (parse_items items) with
       | Ok c -> show_config c
       | Err e -> show_err e)
    | _ -> "ERR args");
  register "c17.py_int" (fun a -> match a with
    | [s] -> (match py_int (bytes_of_hex s) with Some z -> "OK " ^ string_of_z z | None -> "NONE")
    | _ -> "ERR args");
  register "c17.py_float" (fun a -> match a with
    | [s] -> (match py_float (bytes_of_hex s) with Some (m, e) -> "OK " ^ string_of_z m ^ " " ^ string_of_z e | None -> "NONE")
    | _ -> "ERR args");
  register "c17.parse_bool" (fun a -> match a with
    | [s] -> (match parse_bool (bytes_of_hex s) with Some b -> "OK " ^ bool_s b | None -> "NONE")
    | _ -> "ERR args");
  register "c17.toml_read" (fun a -> match a with
    | [s] -> (match toml_read (bytes_of_hex s) with Some v -> "OK " ^ show_value v | None -> "NONE")
    | _ -> "ERR args");
  register "c17.re_split" (fun a -> match a with
    | [s] -> Stdlib.String.concat "," (Stdlib.List.map hex_of_bytes (re_split (bytes_of_hex s)))
    | _ -> "ERR args");
  register "c17.option_names" (fun _ -> Stdlib.String.concat "," (Stdlib.List.map hex_of_bytes option_names))
