(* C11: tmux templates *)
open Util
let () =
  register "c11.template" (fun a -> match a with
    | [n] -> hex_opt (TmuxTemplate.template (nat_of_int (int_of_string n)))
    | _ -> "ERR args");
  register "c11.emit" (fun a -> match a with
    | [n; c] -> hex_opt (TmuxTemplate.emit (nat_of_int (int_of_string n)) (bytes_of_hex c))
    | _ -> "ERR args");
  (* env: "NONE" or hex *)
  register "c11.detect_terminal" (fun a -> match a with
    | [env; term; layers] ->
      let env = if env = "NONE" then None else Some (bytes_of_hex env) in
      string_of_int (int_of_nat (TmuxTemplate.detect_terminal env (bytes_of_hex term) (nat_of_int (int_of_string layers))))
    | _ -> "ERR args");
  register "c11.detect_highlevel" (fun a -> match a with
    | [env; term] ->
      let env = if env = "NONE" then None else Some (bytes_of_hex env) in
      string_of_int (int_of_nat (TmuxTemplate.detect_highlevel env (bytes_of_hex term)))
    | _ -> "ERR args");
  (* spec oracle: layers_ok n bytes expected *)
  register "c11.spec_layers_ok" (fun a -> match a with
    | [n; l; e] -> bool_s (TmuxSpec.layers_ok (nat_of_int (int_of_string n)) (bytes_of_hex l) (bytes_of_hex e))
    | _ -> "ERR args");
  register "c11.spec_unwrapn" (fun a -> match a with
    | [n; l] -> hex_opt (TmuxSpec.unwrapn (nat_of_int (int_of_string n)) (bytes_of_hex l))
    | _ -> "ERR args")
