(* main.ml — reads one request per line "<handler> <arg> ...", prints one reply line. *)
let () =
  (try
     while true do
       let line = input_line stdin in
       let reply =
         match String.split_on_char ' ' (String.trim line) with
         | [] | [""] -> "ERR empty"
         | name :: args ->
           (match Hashtbl.find_opt Util.handlers name with
            | None -> "ERR unknown-handler " ^ name
            | Some f -> (try f args with e -> "ERR exception " ^ Printexc.to_string e))
       in
       print_string reply; print_char '\n'
     done
   with End_of_file -> ());
  flush stdout
