(* C08: one history per request.
     c08.hist <rebind: 0 | 1 | gen> tok tok ...
   tokens (fields ':' separated, subfields ','):
     W:path:mtime:fmt:size:pix,w,h,mode        the user writes a file          X:path   deletes it
     C:act:subj:opts                           act = a (assign_id) | u (upload) | d (upload_and_display)
       subj = F,path | M,pix,w,h,mode | I,f,path,mtime,cols,rows,id | I,m,pix,w,h,mode,cols,rows,id
            | I,l,mode,w,h,pix,cols,rows,id | N,id
       opts = term,meth(a|f|d|o),ssh,force,cb.d,b,e,maxids,cols,rows,formats(1+2 | -),filemax,streammax,
              fitw,fith,encsize,now,nmax,bmax,tmax,hit,free,samples(n+n | -),auto
   reply: per token, separated by " | ":  events # upload table # id table
     events: T,term,id,medium,payload,rows,cols  K,k,content  P,term,id,rows,cols  R      (';' separated, "-" = none)
       payload = U<path> | K<k> | D<content>    content = pix.w.h.mode.cw.ch
     upload table: id,term,descr,size,time rows ('+' separated, sorted); id table: id=descr@atime
       descr = F.path.mtime.cols.rows | M.mode.w.h.pix.cols.rows | ?<n> (a token the codec never produced)
   The description codec is an interning table (descr <-> int), as json.dumps/json.loads are for the library. *)
open Util
open SystemTypes
open SystemModel

let ni s = n_of_int (int_of_string s)
let zi s = z_of_int (int_of_string s)
let split c s = if s = "" then [] else String.split_on_char c s

let intern : (string, int) Hashtbl.t = Hashtbl.create 64
let extern : (int, descr) Hashtbl.t = Hashtbl.create 64
let descr_s (d : descr) : string = match d with
  | DFile (p, m, c, r) -> Printf.sprintf "F.%d.%d.%d.%d" (int_of_n p) (int_of_z m) (int_of_n c) (int_of_n r)
  | DMem ((((a, b), w), e), c, r) -> Printf.sprintf "M.%d.%d.%d.%d.%d.%d" (int_of_n a) (int_of_n b) (int_of_n w) (int_of_n e) (int_of_n c) (int_of_n r)
let codec () : codec =
  Hashtbl.reset intern; Hashtbl.reset extern;
  { enc = (fun d -> let k = descr_s d in
            match Hashtbl.find_opt intern k with
            | Some n -> n_of_int n
            | None -> let n = Hashtbl.length intern + 1 in Hashtbl.replace intern k n; Hashtbl.replace extern n d; n_of_int n);
    dec = (fun n -> Hashtbl.find_opt extern (int_of_n n)) }
let show_desc n = match Hashtbl.find_opt extern (int_of_n n) with Some d -> descr_s d | None -> "?" ^ string_of_int (int_of_n n)

let img_of = function
  | [p; w; h; m] -> { pix = ni p; iw = ni w; ih = ni h; imode = ni m }
  | _ -> failwith "img"
let content_s (c : content) = Printf.sprintf "%d.%d.%d.%d.%d.%d" (int_of_n c.c_img.pix) (int_of_n c.c_img.iw) (int_of_n c.c_img.ih)
    (int_of_n c.c_img.imode) (int_of_n c.c_w) (int_of_n c.c_h)

let medium_s = function CommandTypes.MDirect -> "d" | CommandTypes.MFile -> "f" | CommandTypes.MTemp -> "t" | CommandTypes.MShm -> "s"
let event_s = function
  | EMkTemp (k, c) -> Printf.sprintf "K,%d,%s" (int_of_n k) (content_s c)
  | ETx x ->
    let p = match x.x_payload with
      | PName (UserPath u) -> "U" ^ string_of_int (int_of_n u)
      | PName (TempPath k) -> "K" ^ string_of_int (int_of_n k)
      | PData c -> "D" ^ content_s c in
    Printf.sprintf "T,%d,%d,%s,%s,%d,%d" (int_of_n x.x_term) (int_of_n x.x_id) (medium_s x.x_medium) p (int_of_n x.x_rows) (int_of_n x.x_cols)
  | EPrint (t, id, r, c) -> Printf.sprintf "P,%d,%d,%d,%d" (int_of_n t) (int_of_n id) (int_of_n r) (int_of_n c)
  | ERaise -> "R"

let parse_subj (s : string) : subject =
  match split ',' s with
  | ["F"; p] -> SImg (SFile (ni p))
  | "M" :: im -> SImg (SMem (img_of im))
  | ["I"; "f"; p; m; c; r; id] -> SInst { n_src = IFile (ni p, zi m); n_cols = ni c; n_rows = ni r; n_id = ni id }
  | ["I"; "m"; p; w; h; md; c; r; id] -> SInst { n_src = IMem (img_of [p; w; h; md]); n_cols = ni c; n_rows = ni r; n_id = ni id }
  | ["I"; "l"; a; b; w; e; c; r; id] -> SInst { n_src = ILost (((ni a, ni b), ni w), ni e); n_cols = ni c; n_rows = ni r; n_id = ni id }
  | ["N"; id] -> SId (ni id)
  | _ -> failwith ("subject " ^ s)

let parse_opts (s : string) : opts =
  match split ',' s with
  | [term; meth; ssh; force; sp; b; e; maxids; cols; rows; formats; filemax; streammax; fitw; fith; encsize; now; nmax; bmax; tmax; hit; free; samples; auto] ->
    let meth = match meth with "a" -> MethAuto | "f" -> MethFile | "d" -> MethDirect | _ -> MethOther in
    { o_term = ni term; o_method = meth; o_ssh = (ssh = "1"); o_force = (force = "1");
      o_space = Drv_idm.sp_of sp; o_sub = (ni b, ni e); o_max_ids = zi maxids; o_cols = ni cols; o_rows = ni rows; o_auto = (auto = "1");
      o_formats = (if formats = "-" then [] else Stdlib.List.map ni (split '+' formats));
      o_file_max = zi filemax; o_stream_max = zi streammax; o_fit = (ni fitw, ni fith); o_enc_size = zi encsize;
      o_now = zi now; o_check_now = zi now; o_mark_now = zi now; o_nmax = zi nmax; o_bmax = zi bmax; o_tmax = zi tmax;
      o_samples = (if samples = "-" then [] else Stdlib.List.map ni (split '+' samples)); o_choice = { IdManager.hit_pick = ni hit; free_pick = ni free; tie = (fun _ -> n_of_int 1) } }
  | l -> failwith (Printf.sprintf "opts: %d fields" (Stdlib.List.length l))

let parse_req (tok : string) : request =
  match String.split_on_char ':' tok with
  | ["W"; p; m; fmt; size; im] -> RWrite (ni p, Some { f_mtime = zi m; f_fmt = ni fmt; f_size = zi size; f_img = img_of (split ',' im) })
  | ["X"; p] -> RWrite (ni p, None)
  | ["C"; a; subj; o] ->
    let a = match a with "a" -> AAssign | "u" -> AUpload | "d" -> AUploadDisplay | _ -> failwith "action" in
    RCall (a, parse_subj subj, parse_opts o)
  | _ -> failwith ("token " ^ tok)

let show_up (up : UploadModel.utable) : string =
  let rows = Stdlib.List.map (fun (r : UploadModel.urow) ->
      Printf.sprintf "%d,%d,%s,%d,%d" (int_of_n r.UploadModel.rid) (int_of_n r.UploadModel.rterm) (show_desc r.UploadModel.rdesc)
        (int_of_z r.UploadModel.rsize) (int_of_z r.UploadModel.rtime)) up in
  if rows = [] then "-" else String.concat "+" (Stdlib.List.sort compare rows)
let show_db (d : IdManager.db) : string =
  let rows = Stdlib.List.concat_map (fun sp ->
      Stdlib.List.map (fun (r : IdManager.irow) -> Printf.sprintf "%d=%s@%d" (int_of_n r.IdManager.iid) (show_desc r.IdManager.idesc) (int_of_z r.IdManager.iatime)) (d sp))
      IdSpace.all_spaces in
  if rows = [] then "-" else String.concat "+" (Stdlib.List.sort compare rows)

let () =
  register "c08.hist" (fun args ->
    match args with
    | rb :: toks ->
      let rebind = match rb with "0" -> false | "1" -> true | _ -> SystemGen.upload_rebinds_stale_instance in
      let cd = codec () in
      let s = ref init_sys in
      let out = Stdlib.List.map (fun tok ->
          let (s', evs) = step_gen rebind cd !s (parse_req tok) in
          s := s';
          let e = if evs = [] then "-" else String.concat ";" (Stdlib.List.map event_s evs) in
          Printf.sprintf "%s # %s # %s" e (show_up s'.s_up) (show_db s'.s_db)) toks in
      String.concat " | " out
    | _ -> "ERR args");
  (* the literals the harness needs: temp prefix (hex), ssh variables (hex, comma separated), rebind flag, digest flag *)
  register "c08.literals" (fun _ ->
    Printf.sprintf "%s %s %s %s" (hex_of_bytes SystemGen.temp_prefix)
      (String.concat "," (Stdlib.List.map hex_of_bytes SystemGen.ssh_variables))
      (bool_s SystemGen.upload_rebinds_stale_instance) (bool_s SystemGen.digest_covers_shape));
  (* Spec side: the prefix and the variables the property text names *)
  register "c08.spec_literals" (fun _ ->
    Printf.sprintf "%s %s" (hex_of_bytes SystemSpec.library_temp_prefix)
      (String.concat "," (Stdlib.List.map hex_of_bytes SystemSpec.ssh_variable_names)))
