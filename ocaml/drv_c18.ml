(* C18: shell-script exporter.  Byte strings are hex ("-" = empty); lists of byte strings are
   comma-separated hex items ("." = empty list). *)
open Util
let list_of_hex (s : string) : BinNums.coq_N list list =
  if s = "." then [] else Stdlib.List.map bytes_of_hex (String.split_on_char ',' s)
let hex_list (l : BinNums.coq_N list list) : string =
  if l = [] then "." else String.concat "," (Stdlib.List.map hex_of_bytes l)
let () =
  register "c18.b64decode" (fun a -> match a with
    | [s] -> hex_opt (Base64.b64decode (bytes_of_hex s))
    | _ -> "ERR args");
  register "c18.b64decode_py" (fun a -> match a with
    | [s] -> hex_opt (Base64.b64decode_py (bytes_of_hex s))
    | _ -> "ERR args");
  register "c18.b64encode" (fun a -> match a with
    | [s] -> hex_of_bytes (Base64.b64encode (bytes_of_hex s))
    | _ -> "ERR args");
  register "c18.escape" (fun a -> match a with
    | [s] -> hex_of_bytes (ShellScript.escape_bytes (bytes_of_hex s))
    | _ -> "ERR args");
  register "c18.split" (fun a -> match a with
    | [s] -> hex_list (ShellScript.split_chunks (bytes_of_hex s))
    | _ -> "ERR args");
  register "c18.try_base64" (fun a -> match a with
    | [s] -> hex_opt (ShellScript.try_base64 (bytes_of_hex s))
    | _ -> "ERR args");
  (* c18.write <data> <comment> -> script text *)
  register "c18.write" (fun a -> match a with
    | [d; c] -> hex_of_bytes (ShellScript.write_to_shellscript (bytes_of_hex d) (bytes_of_hex c))
    | _ -> "ERR args");
  (* c18.session W:<data>:<comment> R:<text> ... -> script text *)
  register "c18.session" (fun a ->
    let ev s = match String.split_on_char ':' s with
      | ["W"; d; c] -> ShellScript.Write (bytes_of_hex d, bytes_of_hex c)
      | ["R"; t] -> ShellScript.Raw (bytes_of_hex t)
      | _ -> failwith "bad event" in
    let es = Stdlib.List.map ev a in
    hex_of_bytes (ShellScript.script_of es) ^ " " ^ hex_of_bytes (ShellScript.terminal_of es));
  (* Spec side *)
  register "c18.spec_eval" (fun a -> match a with
    | [s] -> hex_opt (PosixShSpec.eval (bytes_of_hex s))
    | _ -> "ERR args");
  register "c18.spec_b64" (fun a -> match a with
    | [s] -> hex_of_bytes (PosixShSpec.rfc_b64 (bytes_of_hex s))
    | _ -> "ERR args");
  register "c18.spec_printf" (fun a -> match a with
    | [ops] -> hex_opt (PosixShSpec.printf_utility (list_of_hex ops))
    | _ -> "ERR args")
