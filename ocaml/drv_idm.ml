(* C01/C02/C03/C12: the id tables.  A state is "sp:id,desc,time;id,desc,time/sp:..." (sp = cb.d e.g. 24.1), "-" = empty.
   idm.set   <state> id desc time
   idm.del   <state> id
   idm.clean <state> cb d b e max ties
   idm.get   <state> desc cb d b e now max samples hit free ties   -> "ID n <state>" | "FAILED <state>" | "STUCK"
   idm.query <state> cb d b e ties                                  -> "count ; id,id,id (most recent first)"
   ties = "id=rank,id=rank" or "-" (unlisted ids have rank 1) *)
open Util
open IdManager

let sp_of s = match String.split_on_char '.' s with
  | [cb; d] -> (match IdSpace.mk_space (n_of_int (int_of_string cb)) (d = "1") with Some sp -> sp | None -> failwith "space")
  | _ -> failwith "space"
let sp_name sp = Printf.sprintf "%d.%d" (int_of_n (IdSpace.color_bits sp)) (if IdSpace.use_3rd sp then 1 else 0)

let parse_state (s : string) : db =
  let tbls = Hashtbl.create 5 in
  if s <> "-" then
    Stdlib.List.iter (fun part ->
      match String.index_opt part ':' with
      | None -> failwith "state"
      | Some i ->
        let sp = String.sub part 0 i and rows = String.sub part (i + 1) (String.length part - i - 1) in
        let rows = if rows = "" then [] else Stdlib.List.map (fun r ->
          match String.split_on_char ',' r with
          | [id; d; t] -> { iid = n_of_int (int_of_string id); idesc = n_of_int (int_of_string d); iatime = z_of_int (int_of_string t) }
          | _ -> failwith "row") (String.split_on_char ';' rows) in
        Hashtbl.replace tbls sp rows) (String.split_on_char '/' s);
  fun sp -> match Hashtbl.find_opt tbls (sp_name sp) with Some l -> l | None -> []

let show_state (d : db) : string =
  let parts = Stdlib.List.filter_map (fun sp ->
    let rows = d sp in
    if rows = [] then None else
      let rs = Stdlib.List.map (fun r -> (int_of_n r.iid, int_of_n r.idesc, int_of_z r.iatime)) rows in
      let rs = Stdlib.List.sort compare rs in
      Some (sp_name sp ^ ":" ^ String.concat ";" (Stdlib.List.map (fun (a, b, c) -> Printf.sprintf "%d,%d,%d" a b c) rs)))
    IdSpace.all_spaces in
  if parts = [] then "-" else String.concat "/" (Stdlib.List.sort compare parts)

let parse_ties (s : string) : BinNums.coq_N -> BinNums.coq_N =
  let h = Hashtbl.create 16 in
  if s <> "-" then Stdlib.List.iter (fun kv ->
    match String.split_on_char '=' kv with
    | [k; v] -> Hashtbl.replace h (int_of_string k) (int_of_string v)
    | _ -> failwith "ties") (String.split_on_char ',' s);
  fun id -> n_of_int (match Hashtbl.find_opt h (int_of_n id) with Some r -> r | None -> 1)

let nums s = if s = "-" then [] else Stdlib.List.map (fun x -> n_of_int (int_of_string x)) (String.split_on_char ',' s)
let num s = n_of_int (int_of_string s)
let zi s = z_of_int (int_of_string s)

let () =
  register "idm.set" (fun a -> match a with
    | [st; id; d; t] -> (match set_id (parse_state st) (num id) (num d) (zi t) with Some d' -> "OK " ^ show_state d' | None -> "ERR")
    | _ -> "ERR args");
  register "idm.del" (fun a -> match a with
    | [st; id] -> (match del_id (parse_state st) (num id) with Some d' -> "OK " ^ show_state d' | None -> "ERR")
    | _ -> "ERR args");
  register "idm.clean" (fun a -> match a with
    | [st; sp; b; e; mx; ties] ->
      let ch = { hit_pick = N0; free_pick = N0; tie = parse_ties ties } in
      "OK " ^ show_state (cleanup (parse_state st) (sp_of sp) (num b, num e) (zi mx) ch)
    | _ -> "ERR args");
  register "idm.get" (fun a -> match a with
    | [st; desc; sp; b; e; now; mx; samples; hit; free; ties] ->
      let ch = { hit_pick = num hit; free_pick = num free; tie = parse_ties ties } in
      (match get_id (parse_state st) (num desc) (sp_of sp) (num b, num e) (zi now) (zi mx) (nums samples) ch with
       | (GotId id, d') -> Printf.sprintf "ID %d %s" (int_of_n id) (show_state d')
       | (GetFailed, d') -> "FAILED " ^ show_state d'
       | (GetStuck, _) -> "STUCK")
    | _ -> "ERR args");
  register "idm.query" (fun a -> match a with
    | [st; sp; b; e; ties] ->
      let d = parse_state st in
      let ch = { hit_pick = N0; free_pick = N0; tie = parse_ties ties } in
      let sp = sp_of sp and sub = (num b, num e) in
      let all = get_all d sp sub ch in
      Printf.sprintf "%d ; %s" (int_of_n (count d sp sub)) (String.concat "," (Stdlib.List.map (fun r -> string_of_int (int_of_n r.iid)) all))
    | _ -> "ERR args")
