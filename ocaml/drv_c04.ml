(* C04: one history per request.  Tokens:
   B:id:d  U:id  M:id:t:size:time  C:n  Q:id:t:now:N:B:T
   Reply: one "needs/info" entry per Q (space separated; info = "-" or desc,time,size,bytes_ago,uploads_ago),
   then ";" and the final table as id,term,desc,size,time rows sorted, "|" separated. *)
open Util
open UploadModel

module IM = Map.Make (Int)

let () =
  register "c04.hist" (fun toks ->
    let cur = ref IM.empty in
    let up = ref [] in
    let out = Buffer.create 256 in
    let curf id = match IM.find_opt (int_of_n id) !cur with Some d -> Some (n_of_int d) | None -> None in
    Stdlib.List.iter (fun tok ->
      match String.split_on_char ':' tok with
      | ["B"; id; d] -> cur := IM.add (int_of_string id) (int_of_string d) !cur
      | ["U"; id] -> cur := IM.remove (int_of_string id) !cur
      | ["M"; id; t; size; time] ->
        up := mark_uploaded curf !up (n_of_int (int_of_string id)) (n_of_int (int_of_string t)) (z_of_int (int_of_string size)) (z_of_int (int_of_string time))
      | ["C"; n] -> up := cleanup_uploads !up (z_of_int (int_of_string n))
      | ["Q"; id; t; now; nm; bm; tm] ->
        let id = n_of_int (int_of_string id) and t = n_of_int (int_of_string t) in
        let nu = needs_uploading curf !up id t (z_of_int (int_of_string now)) (z_of_int (int_of_string nm)) (z_of_int (int_of_string bm)) (z_of_int (int_of_string tm)) in
        let info = match upload_info !up id t with
          | None -> "-"
          | Some ((((d, time), size), ba), ua) ->
            Printf.sprintf "%d,%d,%d,%d,%d" (int_of_n d) (int_of_z time) (int_of_z size) (int_of_z ba) (int_of_z ua) in
        Buffer.add_string out (Printf.sprintf "%s/%s " (bool_s nu) info)
      | _ -> failwith ("bad token " ^ tok)) toks;
    let rows = Stdlib.List.map (fun r -> Printf.sprintf "%d,%d,%d,%d,%d" (int_of_n r.rid) (int_of_n r.rterm) (int_of_n r.rdesc) (int_of_z r.rsize) (int_of_z r.rtime)) !up in
    let rows = Stdlib.List.sort compare rows in
    Buffer.contents out ^ ";" ^ String.concat "|" rows)
