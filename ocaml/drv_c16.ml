(* C16: cursor tracking.  Handlers:
   c16.run W H scroll fixes op op ...   -> per op: outhex|tracked|res|x,y,pend,top,bot,ground   (space separated)
        fixes = "src" (as extracted from the tree) | "all" | five 0/1 digits (abs low ph marg pend)
        ops: mv:R:D:L:U  abs:C:R  rst  su:n  sd:n  mar:t:b  wr:hex  wc:hex  cl  cs
             ph:image:placement:sc:sr:ec:er:px:py:save:lf   q  qt  put:ghex:image:placement:cols:rows:dnm
             ("N" = None / no pos)
   c16.spec W H hex   -> x,y,pend,sx,sy,spend,top,bot,ground|replyhex    (the Spec terminal alone)
   c16.plain hex / c16.null hex  -> Spec predicates vt_plain / vt_null *)
open Util

let zopt s = if s = "N" then None else Some (z_of_int (int_of_string s))
let zz s = z_of_int (int_of_string s)
let bb s = s = "1"

let parse_op (s : string) : CursorTrack.op =
  match String.split_on_char ':' s with
  | ["mv"; r; d; l; u] -> CursorTrack.OMove (zopt r, zopt d, zopt l, zopt u)
  | ["abs"; c; r] -> CursorTrack.OMoveAbs (zopt c, zopt r)
  | ["rst"] -> CursorTrack.OReset
  | ["su"; n] -> CursorTrack.OScrollUp (zz n)
  | ["sd"; n] -> CursorTrack.OScrollDown (zz n)
  | ["mar"; t; b] -> CursorTrack.OSetMargins (zz t, zz b)
  | ["wr"; h] -> CursorTrack.OWrite (bytes_of_hex h)
  | ["wc"; h] -> CursorTrack.OWriteCmd (bytes_of_hex h)
  | ["cl"] -> CursorTrack.OClearLine
  | ["cs"] -> CursorTrack.OClearScreen
  | ["ph"; im; pl; sc; sr; ec; er; px; py; sv; lf] ->
    let pos = if px = "N" then None else Some (zz px, zz py) in
    CursorTrack.OPrintPlaceholder
      { CursorTrack.ph_image = zz im; ph_placement = zz pl; ph_sc = zz sc; ph_sr = zz sr; ph_ec = zz ec;
        ph_er = zz er; ph_pos = pos; ph_save = bb sv; ph_lf = bb lf }
  | ["q"] -> CursorTrack.OQuery
  | ["qt"] -> CursorTrack.OQueryTracked
  | ["put"; g; im; pl; cols; rows; dnm] ->
    CursorTrack.OSendPut (bytes_of_hex g, zopt im, zz pl, zopt cols, zopt rows, bb dnm)
  | _ -> failwith ("bad op " ^ s)

let parse_fixes (s : string) : CursorTrack.fixes =
  if s = "src" then CursorTrack.src_fixes
  else if s = "all" then CursorTrack.all_fixed
  else { CursorTrack.fx_abs = s.[0] = '1'; fx_low = s.[1] = '1'; fx_ph = s.[2] = '1'; fx_marg = s.[3] = '1';
         fx_pend = s.[4] = '1' }

let zs z = string_of_int (int_of_z z)
let res_s = function
  | CursorTrack.ROk -> "ok"
  | CursorTrack.RPos (x, y) -> "pos," ^ zs x ^ "," ^ zs y
  | CursorTrack.RValueError -> "ValueError"
  | CursorTrack.RIndexError -> "IndexError"
  | CursorTrack.RTimeout -> "TimeoutError"

let term_s ((p, t) : VtCursorSpec.pst * VtCursorSpec.vt) =
  Stdlib.String.concat ","
    [ zs t.VtCursorSpec.vx; zs t.VtCursorSpec.vy; bool_s t.VtCursorSpec.vpend; zs t.VtCursorSpec.vtop;
      zs t.VtCursorSpec.vbot; bool_s (p = VtCursorSpec.PGround) ]

let rec drop n l = if n <= 0 then l else match l with [] -> [] | _ :: r -> drop (n - 1) r

let () =
  register "c16.run" (fun a -> match a with
    | w :: h :: scroll :: fixes :: ops ->
      let cfg = { CursorTrack.c_fix = parse_fixes fixes; cW = zz w; cH = zz h; c_scroll = bb scroll } in
      let world = ref (CursorTrack.world0 (VtCursorSpec.vt_start (zz w) (zz h))) in
      let outlen = ref 0 in
      let reply = Stdlib.List.map (fun s ->
        let (w', r) = CursorTrack.step VtCursorSpec.vt_feed cfg !world (parse_op s) in
        let all = w'.CursorTrack.w_out in
        (* w_out only grows: keep just the new part *)
        let fresh = drop !outlen all in
        outlen := 0;
        world := { w' with CursorTrack.w_out = [] };
        let tr = match w'.CursorTrack.w_tr with None -> "N" | Some (x, y) -> zs x ^ "," ^ zs y in
        Stdlib.String.concat "|" [ hex_of_bytes fresh; tr; res_s r; term_s w'.CursorTrack.w_term;
                                   bool_s w'.CursorTrack.w_mflag; hex_of_bytes w'.CursorTrack.w_in ]) ops in
      Stdlib.String.concat " " reply
    | _ -> "ERR args");
  register "c16.spec" (fun a -> match a with
    | [w; h; hx] ->
      let ((p, t), rep) = VtCursorSpec.vt_feed (VtCursorSpec.vt_start (zz w) (zz h)) (bytes_of_hex hx) in
      Stdlib.String.concat ","
        [ zs t.VtCursorSpec.vx; zs t.VtCursorSpec.vy; bool_s t.VtCursorSpec.vpend; zs t.VtCursorSpec.vsx;
          zs t.VtCursorSpec.vsy; bool_s t.VtCursorSpec.vspend; zs t.VtCursorSpec.vtop; zs t.VtCursorSpec.vbot;
          bool_s (p = VtCursorSpec.PGround) ] ^ "|" ^ hex_of_bytes rep
    | _ -> "ERR args");
  register "c16.plain" (fun a -> match a with [hx] -> bool_s (VtCursorSpec.vt_plain (bytes_of_hex hx)) | _ -> "ERR args");
  register "c16.null" (fun a -> match a with [hx] -> bool_s (VtCursorSpec.vt_null (bytes_of_hex hx)) | _ -> "ERR args")
